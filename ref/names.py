"""Reference semantics of task-name resolution (C10 / C08), written from the property statement and the docs:
a full name is  ns1::ns2::g1:g2:name ; a query may drop the namespace, the group, or both."""


class Ambiguous(KeyError):
    pass


class NotFound(KeyError):
    pass


def parse(full):
    parts = full.split('::')
    ns = parts[:-1]
    g = parts[-1].split(':')
    return ns, g[:-1], g[-1]


def tokens(full):
    ns, gr, nm = parse(full)
    out = []
    for n in ns:
        out += [n, '']
    return out + gr + [nm]


def matches(query, full, determine_namespace=True):
    qns, qgr, qnm = parse(query)
    fns, fgr, fnm = parse(full)
    if (qns or not determine_namespace) and qns != fns:
        return False
    if qnm != fnm:
        return False
    if qgr:
        return qgr == fgr
    return True


def less_nested(c, t):
    """c is t itself or a less nested form of t: same task name, c's namespace components are a suffix of t's and
    c's group components are a suffix of t's (so `ns::x` is a less nested form of `ns::g:x`, and `x` of both)."""
    cns, cgr, cnm = parse(c)
    tns, tgr, tnm = parse(t)

    def suffix(a, b):
        return len(a) <= len(b) and b[len(b) - len(a):] == a
    return cnm == tnm and suffix(cns, tns) and suffix(cgr, tgr)


def resolve(query, fulls, determine_namespace=True):
    m = [f for f in fulls if matches(query, f, determine_namespace)]
    if not m:
        raise NotFound(query)
    if len(m) == 1:
        return m[0]
    for c in m:
        if all(less_nested(c, t) for t in m):
            return c
    raise Ambiguous(query)
