"""Frozen representations of the non-JSON parameter values used by the C12/C02 scenarios."""
from . import keyscheme as KS
from . import family
from .family import P, par, inp

KINDS = [
    P('Kinds', group='kg', params=[
        par('s'), par('i'), par('b'), par('n', default=None), par('lst'), par('dct'),
        par('pth', dtype=__import__('pathlib').Path), par('tpl'), par('dd', default='dflt', dpdv=True),
        par('ig', default=0, ignore=True), par('nc', nic='name_conf'),
        par('pdef', dtype=__import__('pathlib').Path, default='some/dir'),
        par('pdef2', dtype=__import__('pathlib').Path, default='other', dpdv=True),
    ]),
    P('After', inputs=[inp('Kinds')], params=[par('z', default=1.5)]),
]
ODD = [
    P('Load_Features', group='pre:io', params=[par('x')]),
    P('HTTPFetch', params=[par('y', default=1)], inputs=[inp('Load_Features')]),
    P('X2Y_Task', inputs=[inp('HTTPFetch')], data='dir'),
]
OBJS = [
    P('Objs', params=[par('custom'), par('auto'), par('cdef'), par('plain'), par('objs'), par('loc')]),
    P('Down', inputs=[inp('objs', 'name')], data='dir'),
]
PIPES = {'chain3': family.CHAIN3, 'diamond': family.DIAMOND, 'optional': family.OPTIONAL, 'pattern': family.PATTERN,
         'kinds': KINDS, 'objs': OBJS, 'odd': ODD}



class Fixed:
    """A value whose frozen representation is given directly."""

    def __init__(self, text):
        self.text = text

    def repr(self):
        return self.text


def ref_values(pipe, vals, pr):
    """The values as the reference sees them. pr(v) = Python's repr of a JSON-like value (symbolic-aware in sx)."""
    rv = dict(vals)
    if pipe == 'kinds':
        rv['tpl'] = Fixed(repr('{ROOT}/sub/{MISSING}'))
        rv['pth'] = Fixed(repr('{ROOT}/p'))
    if pipe == 'objs':
        c = vals['custom']
        au = vals['auto']
        args = {'size': au.size, 'tags': [au._tags[0], 3]}
        if not bool(au.rate == 1):
            args['rate'] = au.rate
        rv['custom'] = Fixed('Custom(a=' + pr(c.a) + ', b=' + pr(c.b) + ')')
        rv['auto'] = Fixed('Sized(' + KS.join(', ', [k + '=' + pr(v) for k, v in sorted(args.items())]) + ')')
        cd = vals['cdef']
        rv['cdef'] = Fixed('Sized(size=' + pr(cd['args'][0]) + ', tags=' + pr({'k': cd['kwargs']['tags']['k']}) + ')')
        pl = vals['plain']
        rv['plain'] = Fixed('ref.pobjects.Plain(' + KS.vrepr(pl['args'][0]) + ', ' + KS.vrepr(pl['args'][1]) + ', kw='
                            + KS.vrepr(pl['kwargs']['kw']) + ')')
        rv['loc'] = Fixed('Loc(root=' + pr(vals['loc']._root) + ')')
        o = vals['objs']
        rv['objs'] = [Fixed('Custom(a=1, b=2)'), Fixed('Custom(a=' + pr(o[1]['args'][0]) + ', b=0)')]
    return rv
