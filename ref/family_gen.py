"""Namespace for generated task classes that configs refer to by import string."""
