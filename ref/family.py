"""Pipeline family: task classes generated from specs, with `run` an injective tagging function of the task's name,
its parameter values and its input values -- any wrong parameter, wrong upstream or foreign result shows in the value.

A spec is a list of task dicts:
  {'name': 'Alpha', 'group': None|'g'|'g:h', 'params': [param dicts], 'inputs': [input dicts], 'data': 'json'|...,
   'access': 'args'|'registry', 'abstract': False}
param dict:  {'name': 'x', 'default': <NO>|value, 'dpdv': bool, 'ignore': bool, 'nic': None|'name_in_config',
              'dtype': None|type}
input dict:  {'ref': 'class'|'name'|'param'|'param_optional', 'target': 'Alpha' | 'g:alpha' | '~al.*', 'default': ...}
"""
import re

RUNLOG = []          # (task fullname, id(task object)) appended by every generated run()
FAIL = {}            # slugname -> callable(task) that may raise (fault injection by harnesses)
NO = object()


def slug(name):
    s = re.sub(r'(?<!^)(?=[A-Z])', '_', name).lower()
    return s[:-5] if s.endswith('_task') else s


def tag(task_slug, params, inputs):
    return {'t': task_slug, 'p': params, 'i': inputs}


_LEN_DATA = {}


def len_data_class():
    """a user-defined in-memory result container that is falsy when empty (it defines __len__)"""
    if 'cls' not in _LEN_DATA:
        from taskchain import InMemoryData

        class LenData(InMemoryData):
            def __init__(self):
                super().__init__()
                self.items = []

            def __len__(self):
                return len(self.items)
        _LEN_DATA['cls'] = LenData
    return _LEN_DATA['cls']


def norm_input(v):
    """What a consumer sees of an upstream value, as plain comparable data: directory results by the content of
    their out.json, lazily generated ones as lists, arrays and frames as nested lists with dtype and shape."""
    if hasattr(v, 'joinpath') or hasattr(v, 'parts'):
        import taskchain.data as _D
        with (v / 'out.json').open() as f:
            return _D.json.load(f)
    if callable(v):
        return list(v())
    tn = type(v).__name__
    if tn == 'LenData':
        return {'len_data': list(v.items)}
    if tn == 'ndarray':
        return {'nd': v.tolist(), 'dtype': str(v.dtype), 'shape': list(v.shape)}
    if tn == 'DataFrame':
        return {'df': v.to_dict(orient='list'), 'index': list(v.index)}
    if isinstance(v, list) and v and type(v[0]).__name__ == 'ndarray':
        return [norm_input(x) for x in v]
    return v


def _size(raw):
    return len(repr(raw))


def np_of(raw, k=0):
    import numpy as np
    return np.array([_size(raw), 7, 9 + k], dtype='int64')


def df_of(raw):
    import pandas as pd
    return pd.DataFrame({'a': [_size(raw), 1], 'b': ['x', 'y']})


def visible(data, raw):
    """Reference: the value of a task as its consumers (and the caller, after normalisation) see it."""
    if data == 'gen':
        return [{'k': k, 'v': raw} for k in range(3)]
    if data == 'gen0':
        return []
    if data == 'list':
        return [raw]
    if data == 'str':
        return repr(raw)
    if data == 'memlen':
        return {'len_data': []}
    if data == 'lazy':
        return [{'k': k, 'v': raw} for k in range(3)]
    if data == 'npy':
        return norm_input(np_of(raw))
    if data == 'listnpy':
        return [norm_input(np_of(raw, k)) for k in range(3)]
    if data == 'listnpy12':
        return [norm_input(np_of(raw, k)) for k in range(12)]
    if data == 'pd':
        return norm_input(df_of(raw))
    return raw


def make_pipeline(spec, module='ref.family_gen'):
    """Returns {class name: class}. Classes are created in dependency order (by-class references need the class)."""
    from taskchain import Task, Parameter, InMemoryData, DirData
    from taskchain.parameter import InputTaskParameter
    from taskchain.data import ContinuesData, GeneratedDataLazy
    import typing
    classes = {}
    for t in spec:
        name = t['name']
        params = []
        for p in t.get('params', []):
            kw = {}
            if p.get('default', NO) is not NO:
                kw['default'] = p['default']
            if p.get('dpdv'):
                kw['dont_persist_default_value'] = True
            if p.get('ignore'):
                kw['ignore_persistence'] = True
            if p.get('nic'):
                kw['name_in_config'] = p['nic']
            if p.get('dtype'):
                kw['dtype'] = p['dtype']
            params.append(Parameter(p['name'], **kw))
        inputs = []
        for i in t.get('inputs', []):
            tgt = classes[i['target']] if i['ref'] in ('class', 'param_class') else i['target']
            if i['ref'] in ('class', 'name'):
                inputs.append(tgt)
            elif i['ref'] in ('param', 'param_class'):
                params.append(InputTaskParameter(tgt))
            elif i['ref'] == 'param_optional':
                params.append(InputTaskParameter(tgt, default=i.get('default')))
            else:
                raise ValueError(i['ref'])
        meta = {'input_tasks': inputs, 'parameters': params}
        if t.get('group'):
            meta['task_group'] = t['group']
        if t.get('abstract'):
            meta['abstract'] = True
        if t.get('abstract_false'):
            meta['abstract'] = False          # explicitly concrete (e.g. a subclass of an abstract task)
        if t.get('meta_name'):
            meta['name'] = t['meta_name']
        data = t.get('data', 'json')
        pnames = [p['name'] for p in t.get('params', [])]
        import numpy as _np
        import pandas as _pd
        from taskchain.data import ListOfNumpyData
        if data in ('listnpy', 'listnpy12'):
            meta['data_class'] = ListOfNumpyData
        ret = {'memlen': len_data_class(), 'npy': _np.ndarray, 'listnpy': list, 'listnpy12': list, 'pd': _pd.DataFrame, 'json': dict, 'mem': dict, 'dir': DirData, 'cont': ContinuesData, 'gen': typing.Generator, 'gen0': typing.Generator,
               'lazy': GeneratedDataLazy, 'list': list, 'str': str, 'int': int}[data]
        if data == 'mem':
            meta['data_class'] = InMemoryData
        if 'const' in t and data == 'mem':
            meta['ignore_return_type_mismatch'] = True
        in_args = [slug(i['target'] if i['ref'] in ('class', 'param_class') else i['target'].split(':')[-1])
                   for i in t.get('inputs', [])]
        body = _make_run(name, pnames, data, t.get('access', 'registry'), in_args, 'const' in t)
        ns = {'_tag': tag, '_RUNLOG': RUNLOG, '_FAIL': FAIL, '_ret': ret, '_norm_input': norm_input,
              '_np_of': np_of, '_df_of': df_of, '_CONST': CONST, '_pv': _pv}
        exec(body, ns)
        run = ns['run']
        run.__annotations__['return'] = ret
        Meta = type('Meta', (), meta)
        cls = type(name, (Task,), {'Meta': Meta, 'run': run, '__module__': module, '_spec': t})
        classes[name] = cls
    return classes


CONST = {}           # class name -> value returned by a `const` task (mocked upstream in the real-chain comparator)


def _pv(v):
    return v.tagvalue() if hasattr(v, 'tagvalue') else v


def _make_run(name, pnames, data, access, in_args=(), const=False):
    if const:
        ret = {'gen': f'(x for x in _CONST[{name!r}])', 'gen0': f'(x for x in _CONST[{name!r}])'}.get(data, f'_CONST[{name!r}]')
        if data == 'lazy':
            return f'''
def run(self):
    _RUNLOG.append((self.fullname, id(self)))
    d = self.get_data_object()
    d.set_value(lambda: (x for x in _CONST[{name!r}]))
    return d
'''
        if data in ('dir', 'cont'):
            fin = '    d.finished()\n' if data == 'cont' else ''
            return f'''
def run(self):
    _RUNLOG.append((self.fullname, id(self)))
    d = self.get_data_object()
    for _fn, _content in _CONST[{name!r}].items():
        _p = d.dir / _fn
        _p.parent.mkdir(parents=True, exist_ok=True)
        _h = _p.open('w')
        _h.write(_content)
        _h.close()
{fin}    return d
'''
        return f'''
def run(self):
    _RUNLOG.append((self.fullname, id(self)))
    return {ret}
'''
    if access == 'args_inputs':
        args = ', '.join(['self'] + pnames + list(in_args))
        getp = '{' + ', '.join(f'{p!r}: _pv({p})' for p in pnames) + '}'
        geti = '{' + ', '.join(f'{a!r}: _norm_input({a})' for a in in_args) + '}'
        src = f'''
def run({args}):
    inputs = {{}}
    for _n, _t in self.input_tasks.items():
        _k = _n.split('::')[-1]
        inputs[_k] = None
    got = {geti}
    for _k in list(inputs):
        inputs[_k] = got[_k.split(':')[-1]]
    _RUNLOG.append((self.fullname, id(self)))
    _nth = sum(1 for _r in _RUNLOG if _r[0] == self.fullname)
    self.save_to_run_info({{'nth_run_of_task': _nth}})
    self.logger.info('step %d of %s' % (_nth, self.fullname))
    params = {getp}
    f = _FAIL.get(self.slugname)
    if f is not None:
        f(self)
    value = _tag(self.slugname, params, inputs)
    return value
'''
        return src
    args = ', '.join(['self'] + (pnames if access == 'args' else []))
    getp = '{' + ', '.join(f'{p!r}: _pv({p})' for p in pnames) + '}' if access == 'args' else \
        '{' + ', '.join(f'{p!r}: _pv(self.params[{p!r}])' for p in pnames) + '}'
    src = f'''
def run({args}):
    inputs = {{}}
    for _pos, (_n, _t) in enumerate(self.input_tasks.items()):
        _k = _n.split('::')[-1]
        if {access == 'index'!r}:
            _t = self.input_tasks[_pos]          # the same input, addressed by its position in Meta.input_tasks
        if {access == 'lazy'!r} and _pos > 0 and not self.params['use_all']:
            inputs[_k] = 'not read'
            continue                              # an input this run does not need is not requested
        inputs[_k] = _norm_input(_t.value) if hasattr(_t, 'value') and hasattr(_t, 'fullname') else _t
    _RUNLOG.append((self.fullname, id(self)))
    _nth = sum(1 for _r in _RUNLOG if _r[0] == self.fullname)
    self.save_to_run_info({{'nth_run_of_task': _nth}})
    self.save_to_run_info({{'shape': (2, _nth), 'tags': {{'a', 'b'}}}})
    self.logger.info('step %d of %s' % (_nth, self.fullname))
    params = {getp}
    f = _FAIL.get(self.slugname)
    if f is not None:
        f(self)
    value = _tag(self.slugname, params, inputs)
'''
    if data in ('json', 'mem'):
        src += '    return value\n'
    elif data == 'list':
        src += '    return [value]\n'
    elif data == 'str':
        src += '    return repr(value)\n'
    elif data == 'dir':
        src += ('    d = self.get_data_object()\n'
                '    h = (d.dir / "out.json").open("w")\n'
                '    from taskchain.utils import json as _j\n'
                '    import taskchain.data as _D\n'
                '    _D.json.dump(value, h)\n'
                '    h.close()\n'
                '    f2 = _FAIL.get(self.slugname + "/late")\n'
                '    if f2 is not None: f2(self)\n'
                '    return d\n')
    elif data == 'gen':
        src += ('    def g():\n'
                '        for k in range(3):\n'
                '            f3 = _FAIL.get(self.slugname + "/item")\n'
                '            if f3 is not None: f3(self, k)\n'
                '            yield {"k": k, "v": value}\n'
                '    return g()\n')
    elif data == 'npy':
        src += '    return _np_of(value)\n'
    elif data == 'listnpy':
        src += '    return [_np_of(value, k) for k in range(3)]\n'
    elif data == 'listnpy12':
        src += '    return [_np_of(value, k) for k in range(12)]\n'
    elif data == 'pd':
        src += '    return _df_of(value)\n'
    elif data == 'lazy':
        src += ('    d = self.get_data_object()\n'
                '    def g():\n'
                '        for k in range(3):\n'
                '            f3 = _FAIL.get(self.slugname + "/item")\n'
                '            if f3 is not None: f3(self, k)\n'
                '            yield {"k": k, "v": value}\n'
                '    d.set_value(g)\n'
                '    return d\n')
    elif data == 'cont':
        src += ('    d = self.get_data_object()\n'
                '    import taskchain.data as _D\n'
                '    for k in range(2):\n'
                '        p = d.dir / ("part%d.json" % k)\n'
                '        if not p.exists():\n'
                '            h = p.open("w")\n'
                '            _D.json.dump({"k": k, "v": value}, h)\n'
                '            h.close()\n'
                '        f2 = _FAIL.get(self.slugname + "/late")\n'
                '        if f2 is not None: f2(self)\n'
                '    h = (d.dir / "out.json").open("w")\n'
                '    _D.json.dump(value, h)\n'
                '    h.close()\n'
                '    d.finished()\n'
                '    return d\n')
    elif data == 'memlen':
        src += '    d = _ret()\n    return d\n'
    elif data == 'gen0':
        src += ('    def g():\n'
                '        return\n'
                '        yield value\n'
                '    return g()\n')
    else:
        raise ValueError(data)
    return src


# ---------------------------------------------------------------- a few fixed pipelines used by several checks
def P(name, **kw):
    d = {'name': name}
    d.update(kw)
    return d


def par(name, **kw):
    d = {'name': name}
    d.update(kw)
    return d


def inp(target, ref='class', **kw):
    d = {'target': target, 'ref': ref}
    d.update(kw)
    return d


CHAIN3 = [
    P('Alpha', params=[par('x')]),
    P('Beta', params=[par('y', default=5)], inputs=[inp('Alpha')], access='args'),
    P('Gamma', inputs=[inp('Beta')]),
]

DIAMOND = [
    P('Src', params=[par('x'), par('verbose', default=False, ignore=True)]),
    P('Left', group='g', params=[par('l', default='L', dpdv=True), par('lv', default=5, nic='left_level')], inputs=[inp('src', 'name')]),
    P('Right', group='g:h', params=[par('r', nic='right_value')], inputs=[inp('Src')]),
    P('Sink', inputs=[inp('g:left', 'name'), inp('Right')], params=[par('s', default=None)]),
]

OPTIONAL = [
    P('Base', params=[par('x')]),
    P('Extra', params=[par('e', default=1)]),
    P('User', inputs=[inp('Base'), inp('extra', 'param_optional', default=None),
                      inp('missing_task', 'param_optional', default=7)]),
]

PATTERN = [
    P('PartA', group='parts', params=[par('x')]),
    P('PartB', group='parts', params=[par('y', default=2)]),
    P('Other', params=[par('z', default=3)]),
    P('Collect', inputs=[inp('~parts:part_.*', 'name'), inp('Other')]),
]


def dag_specs(n):
    """All DAGs on n tasks T0..T(n-1) with edges i->j only for i<j (every DAG up to relabelling is among them)."""
    import itertools
    pairs = [(i, j) for i in range(n) for j in range(i + 1, n)]
    out = []
    for mask in range(1 << len(pairs)):
        edges = [pairs[k] for k in range(len(pairs)) if mask >> k & 1]
        spec = []
        for j in range(n):
            spec.append(P(f'T{j}', params=[par(f'p{j}', default=j)],
                          inputs=[inp(f'T{i}') for (i, jj) in edges if jj == j]))
        out.append((edges, spec))
    return out
