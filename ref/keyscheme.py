"""Frozen re-statement of the taskchain 1.4.0 storage scheme (C12), written from the documentation:

  key  = first 32 hex digits of sha256( PARAMS + '$$$' + INPUTS )
  PARAMS = '###'.join( name + '=' + value_repr  for persisted parameters sorted by parameter name )  or 'None'
  INPUTS = '###'.join( relative_input_name + '=' + input_key  sorted by input name )
  path = <data dir>/<group levels>/<task name>/<key>.<ext>   (a directory for directory data)

Works on concrete values and on the symbolic proxies of sx (strings are concatenated with `+`).
A parameter is NOT persisted when it is ignored, or equals its default and is declared dont_persist_default_value.
"""
from pathlib import Path


def _is_sym(v):
    return type(v).__module__.startswith('sx.')


def join(sep, items):
    items = list(items)
    if not items:
        return ''
    acc = items[0]
    for it in items[1:]:
        acc = acc + sep + it
    return acc


def vrepr(v):
    """Representation of a JSON-like parameter value / parameter object in the 1.4.0 scheme."""
    from taskchain.parameter import ParameterObject
    tn = type(v).__name__
    if isinstance(v, list) and type(v) is list:
        return '[' + join(', ', [vrepr(x) for x in v]) + ']'
    if isinstance(v, dict):
        items = sorted(v.items())
        return '{' + join(', ', [vrepr(k) + ': ' + vrepr(x) for k, x in items]) + '}'
    if isinstance(v, ParameterObject):
        return v.repr()
    if hasattr(type(v), 'repr') or 'repr' in getattr(v, '__dict__', {}):
        r = v.repr
        return r() if callable(r) else r
    if isinstance(v, str):
        return "'" + v + "'"
    if hasattr(v, '_taskchain_instantiate_repr'):
        return v._taskchain_instantiate_repr
    if _is_sym(v):
        from sx.instr import SX
        return SX.b_repr(v)
    return repr(v)


def param_text(params):
    """params: list of dicts {name, value, raw, default, has_default, dpdv, ignore, dtype}; returns PARAMS."""
    reprs = []
    for p in sorted(params, key=lambda q: q['name']):
        if p.get('ignore'):
            continue
        if p.get('dpdv') and p.get('has_default') and _eq(p['value'], p['default']):
            continue
        if p.get('dtype') is Path and p['value'] is not None:
            raw = p.get('raw', p['value'])
            if hasattr(raw, 'text'):
                r = raw.repr()
            elif _is_sym(raw):
                from sx.instr import SX
                r = SX.b_repr(raw)
            else:
                r = repr(raw)
        else:
            r = vrepr(p['value'])
        reprs.append(p['name'] + '=' + r)
    if not reprs:
        return 'None'
    return join('###', reprs)


def _eq(a, b):
    r = (a == b)
    return bool(r)


def key_text(params, inputs):
    """inputs: dict relative input name -> key of the input task."""
    it = join('###', [n + '=' + k for n, k in sorted(inputs.items())])
    return param_text(params) + '$$$' + it


def digest32(text):
    if _is_sym(text):
        from sx import smt
        from sx.sym import SymStr, HEX
        import z3
        t = z3.SubString(smt.H(text.t), 0, 32)
        return SymStr(t, [('atom', t, HEX)])
    import sys
    instr = sys.modules.get('sx.instr')
    if instr is not None and instr.HASH_MODE[0] == 'uf':
        from sx import smt
        from sx.sym import SymStr, HEX
        import z3
        t = z3.SubString(smt.H(z3.StringVal(text)), 0, 32)
        return SymStr(t, [('atom', t, HEX)])
    import hashlib
    return hashlib.sha256(text.encode()).hexdigest()[:32]


EXT = {'json': 'json', 'list': 'json', 'str': 'json', 'int': 'json', 'gen': 'jsonl', 'gen0': 'jsonl', 'lazy': 'jsonl', 'npy': 'npy',
       'pd': 'pd', 'dir': None, 'cont': None, 'listnpy': None, 'listnpy12': None, 'mem': None, 'memlen': None}


def layout(base_parts, group, task_name, key, data):
    """(directory parts, file name) of a result."""
    d = tuple(base_parts) + tuple(x for x in group.split(':') if x) + (task_name,) if group else \
        tuple(base_parts) + (task_name,)
    ext = EXT[data]
    return d, (key if ext is None else key + '.' + ext)
