"""Reference evaluator for a pipeline of ref.family mounted in one namespace: effective parameter values, dependency
edges (structured, component-wise name resolution), expected values, storage keys (frozen scheme) and layout."""
import re
from pathlib import Path

from . import names as RN
from . import keyscheme as KS
from .family import slug, tag, NO, visible


class Missing(Exception):
    pass


def task_slug(t):
    n = t.get('meta_name') or slug(t['name'])
    return f"{t['group']}:{n}" if t.get('group') else n


def evaluate(spec, values, namespace=None, context=None, ns_context=None, extra_tasks=None):
    """values: the declaring config's data; context / ns_context: global and per-namespace context entries.
    Returns {full name: info} with info = {slug, params, param_values, inputs (rel name -> full name | ('default', v)),
    key, value, group, name, data}."""
    active = [t for t in spec if not t.get('abstract')]
    pre = f'{namespace}::' if namespace else ''
    fulls = {pre + task_slug(t): t for t in active}
    eff = dict(values)
    if context:
        eff.update(context)
    if ns_context:
        eff.update(ns_context)
    out = {}

    def resolve_input(i, t):
        if i['ref'] in ('class', 'param_class'):
            tgt = next(x for x in spec if x['name'] == i['target'])
            return [pre + task_slug(tgt)], True, None
        name = i['target']
        required = i['ref'] != 'param_optional'
        if name.startswith('~'):
            pat = name.lstrip('~')
            any_ns = name.startswith('~~')
            res = []
            for f in fulls:
                last = f.split('::')[-1]
                same_ns = f.split('::')[:-1] == (pre + 'x').split('::')[:-1]
                if re.fullmatch(pat, last) and (same_ns or any_ns):
                    res.append(f)
            return res, True, None
        q = name if (namespace and name.startswith(pre)) or not namespace else pre + name
        try:
            return [RN.resolve(q, list(fulls), determine_namespace=False)], required, None
        except KeyError:
            if required:
                raise Missing(q)
            return [('default', q, i.get('default'))], False, None

    order = []
    for t in active:
        f = pre + task_slug(t)
        params = []
        pv = {}
        for p in t.get('params', []):
            cname = p.get('nic') or p['name']
            has_default = p.get('default', NO) is not NO
            if cname in eff:
                v = eff[cname]
            elif has_default:
                v = p['default']
            else:
                raise Missing(f"{f}.{p['name']}")
            raw = v
            if p.get('dtype') is Path and v is not None:
                v = Path(v) if isinstance(v, str) and not KS._is_sym(v) else v
            params.append({'name': p['name'], 'value': v, 'raw': raw, 'default': p.get('default'),
                           'has_default': has_default, 'dpdv': p.get('dpdv', False), 'ignore': p.get('ignore', False),
                           'dtype': p.get('dtype')})
            pv[p['name']] = v
        ins = {}
        for i in t.get('inputs', []):
            res, _, _ = resolve_input(i, t)
            for r in res:
                if isinstance(r, tuple):
                    ins[r[1]] = ('default', r[2])
                else:
                    ins[r] = r
        out[f] = {'slug': task_slug(t), 'params': params, 'param_values': pv, 'inputs': ins,
                  'group': t.get('group') or '', 'name': t.get('meta_name') or slug(t['name']),
                  'data': t.get('data', 'json'), 'spec': t}
        order.append(f)

    done = set()

    def finish(f, stack=()):
        if f in done:
            return
        if f in stack:
            raise Missing('cycle')
        info = out[f]
        in_keys = {}
        in_vals = {}
        lazy = info['spec'].get('access') == 'lazy' and not info['param_values'].get('use_all')
        for pos, (n, tgt) in enumerate(info['inputs'].items()):
            k = n.split('::')[-1]
            if lazy and pos > 0:
                finish(tgt, stack + (f,)) if not isinstance(tgt, tuple) else None
                rel = n[len(pre):] if pre else n
                if not isinstance(tgt, tuple):
                    in_keys[rel] = out[tgt]['key']
                in_vals[k] = 'not read'
                continue
            if isinstance(tgt, tuple):
                in_vals[k] = tgt[1]
                continue
            finish(tgt, stack + (f,))
            rel = n[len(pre):] if pre else n
            in_keys[rel] = out[tgt]['key']
            in_vals[k] = out[tgt]['value']
        info['key_text'] = KS.key_text(info['params'], in_keys)
        info['key'] = KS.digest32(info['key_text'])
        info['raw'] = tag(info['slug'], dict(info['param_values']), in_vals)
        info['value'] = visible(info['data'], info['raw'])
        done.add(f)
    for f in order:
        finish(f)
    return out


def closure(ev, f, direction='up'):
    """Transitive closure of the dependency relation (names), excluding f."""
    res = set()
    if direction == 'up':
        stack = [t for t in ev[f]['inputs'].values() if not isinstance(t, tuple)]
        while stack:
            x = stack.pop()
            if x not in res:
                res.add(x)
                stack += [t for t in ev[x]['inputs'].values() if not isinstance(t, tuple)]
    else:
        changed = True
        res = set()
        front = {f}
        while front:
            nxt = set()
            for g, info in ev.items():
                if g in res or g == f:
                    continue
                if any((not isinstance(t, tuple)) and t in front for t in info['inputs'].values()):
                    nxt.add(g)
            res |= nxt
            front = nxt
    return res
