"""Parameter objects used by the key-derivation checks (importable by class-definition strings in configs)."""
from taskchain.parameter import ParameterObject, AutoParameterObject, IgnoreForPersistence


def _r(v):
    """repr() that also works on the symbolic proxies of the checks."""
    import sys
    instr = sys.modules.get('sx.instr')
    if instr is not None:
        return instr.SX.b(repr, 'repr', v)
    return repr(v)


class Custom(ParameterObject):
    """ParameterObject with a hand-written repr."""

    def __init__(self, a, b=0):
        self.a, self.b = a, b

    def repr(self):
        return 'Custom(a=' + _r(self.a) + ', b=' + _r(self.b) + ')'


class Sized(AutoParameterObject):
    def __init__(self, size, tags=None, rate=1, verbose=False, extra=None):
        self.size = size
        self._tags = tags
        self.rate = rate
        self.verbose = verbose
        self.extra = extra

    @staticmethod
    def dont_persist_default_value_args():
        return ['rate', 'extra']


class Loc(AutoParameterObject):
    """keeps the raw constructor argument in `_root` and exposes a processed view as `root`"""

    def __init__(self, root):
        self._root = root

    @property
    def root(self):
        return ('processed', self._root)


class Marker(IgnoreForPersistence):
    pass


class Plain:
    """Not a ParameterObject and no repr attribute: falls back to `_taskchain_instantiate_repr`."""

    def __init__(self, *args, **kwargs):
        self.args, self.kwargs = args, kwargs


class Scaler(ParameterObject):
    """A parameter object that also wants to see the chain (taskchain.chain.ChainObject is mixed in lazily)."""

    def __init__(self, k):
        self.k = k
        self.chain_size = None

    def repr(self):
        return 'Scaler(k=' + _r(self.k) + ')'

    def init_chain(self, chain):
        self.chain_size = len(chain.tasks)

    def tagvalue(self):
        return ('scaler', self.k, self.chain_size)


def chain_scaler(k):
    from taskchain.chain import ChainObject
    cls = type('ChainScaler', (Scaler, ChainObject), {})
    return cls(k)
