"""MFS — in-memory model of the file system behind a duck-typed pathlib.Path (DESIGN 4.1).

* one *tick* per state-changing operation; a crash is a BaseException raised at tick k for a symbolic k
* open('w') truncates at once; writes are buffered per handle and published at the handle's own offset on
  flush/close (a write beyond the current end pads with NUL bytes); a crash at the flush publishes a torn prefix
* rename/move is atomic; rmtree removes entries one tick at a time
* the last component of a path may be symbolic (e.g. H(text)[:32] + '.json'): lookups then compare names through the
  solver (the "is this the same file?" question becomes a branch of the exploration)
File contents are lists of chunks: str / bytes, or Opaque tokens standing for the serialisation of a symbolic payload.
"""
import io

from .sym import Sym, SymStr, SxUnsupported, has_sym, sx_add


def _drop(entries, e):
    """remove entry e by identity (list.remove would compare names with ==, i.e. ask the solver)"""
    for i, x in enumerate(entries):
        if x is e:
            del entries[i]
            return
    raise ValueError('entry not in directory')


def _plain(c):
    """a concrete str / bytes chunk (symbolic strings report `str` as their class, so test the real type)"""
    return type(c) in (str, bytes) or (isinstance(c, (str, bytes)) and not isinstance(c, Sym))


class Crash(BaseException):
    """The process dies here."""


class Opaque:
    """Serialised form of a (symbolic or concrete) payload, as one indivisible chunk."""

    def __init__(self, obj, kind='json', torn=False):
        self.obj = obj
        self.kind = kind
        self.torn = torn

    def __add__(self, o):
        return Chunks([self, o])

    def __radd__(self, o):
        return Chunks([o, self])

    def __repr__(self):
        return f'<opaque {self.kind}{" torn" if self.torn else ""}>'


class Chunks:
    """Concatenation of str and Opaque pieces (what `json.dumps(x) + '\\n'` becomes for a symbolic x)."""

    def __init__(self, parts):
        self.parts = []
        for p in parts:
            if isinstance(p, Chunks):
                self.parts += p.parts
            else:
                self.parts.append(p)

    def __add__(self, o):
        return Chunks([self, o])

    def __radd__(self, o):
        return Chunks([o, self])

    def splitlines(self, *a):
        raise SxUnsupported('splitlines on serialised opaque payloads')

    def strip(self):
        ps = list(self.parts)
        while ps and isinstance(ps[0], str) and not ps[0].strip():
            ps.pop(0)
        while ps and isinstance(ps[-1], str) and not ps[-1].strip():
            ps.pop()
        if len(ps) == 1:
            return ps[0]
        return Chunks(ps)


class FileNode:
    def __init__(self):
        self.chunks = []          # published content
        self.binary = False
        self.link = None

    def size(self):
        n = 0
        for c in self.chunks:
            if _plain(c):
                n += len(c)
            else:
                n += 1
        return n


class DirNode:
    def __init__(self):
        self.entries = []         # [name, node]


class FS:
    def __init__(self):
        self.root = DirNode()
        self.ticks = 0
        self.crash_at = None      # None | int | SymInt  (crash immediately BEFORE the operation with this index)
        self.torn = None          # callable(n_chunks_len) -> kept length, consulted when a crash falls on a flush
        self.log = []
        self.latched = None
        self.writes = 0           # state-changing operations performed (for "loading never writes")
        self.frozen = False
        self.epoch = 0            # process generation: handles of a dead process never publish anything
        self.crashed_at = None    # the tick (log entry) at which the crash was delivered

    def reboot(self):
        """The process is gone: buffered data of its open handles is lost, a pending crash is forgotten."""
        self.epoch += 1
        self.latched = None
        self.crash_at = None
        self.crashed_at = None

    # ---- ticks and crashes
    def tick(self, what):
        if self.latched is not None:
            c, self.latched = self.latched, None
            raise c
        i = self.ticks
        self.ticks += 1
        self.log.append(what)
        self.writes += 1
        k = self.crash_at
        if k is not None:
            if isinstance(k, Sym):
                if bool(k == i):
                    self.crashed_at = what
                    raise Crash(f'{i}:{what}')
            elif k == i:
                self.crashed_at = what
                raise Crash(f'{i}:{what}')

    # ---- tree access
    def _find(self, dirnode, name):
        for e in dirnode.entries:
            n = e[0]
            if not isinstance(n, Sym) and not isinstance(name, Sym):
                if n == name:
                    return e
            elif bool(n == name):
                return e
        return None

    def node(self, parts):
        cur = self.root
        for p in parts:
            if not isinstance(cur, DirNode):
                return None
            e = self._find(cur, p)
            if e is None:
                return None
            cur = e[1]
        return cur

    def parent_entry(self, parts):
        d = self.node(parts[:-1])
        if not isinstance(d, DirNode):
            return None, None
        return d, self._find(d, parts[-1])

    def path(self, s='/'):
        return MPath(self, tuple(x for x in s.split('/') if x))

    # ---- inspection helpers for harnesses
    def listing(self, parts=()):
        out = {}

        def walk(node, pre):
            for n, ch in node.entries:
                key = pre + (n,)
                if isinstance(ch, DirNode):
                    out[key] = 'dir'
                    walk(ch, key)
                else:
                    out[key] = list(ch.chunks)
        d = self.node(parts)
        if isinstance(d, DirNode):
            walk(d, tuple(parts))
        return out

    def snapshot(self):
        """Deep, comparable copy of the tree (concrete names only)."""
        out = {}
        for k, v in self.listing().items():
            out['/'.join(map(str, k))] = v if v == 'dir' else tuple(
                c if _plain(c) else ('opaque', id(c.obj), c.torn) for c in v)
        return out


class MStat:
    def __init__(self, size):
        self.st_size = size


def _join_name(a, b):
    return sx_add(a, b) if (isinstance(a, Sym) or isinstance(b, Sym)) else a + b


class MPath:
    """Duck-typed pathlib.Path over an FS."""

    def __init__(self, fs, parts):
        self.fs = fs
        self.parts = tuple(parts)

    # ---- pure path algebra
    def __truediv__(self, o):
        if isinstance(o, MPath):
            return o
        if isinstance(o, Sym):
            if not (isinstance(o, SymStr) and o.syntactic('/')):
                # a symbolic component: only allowed when it cannot contain '/'
                if isinstance(o, SymStr) and o.segs is not None and any(sg[0] == 'lit' and '/' in sg[1] for sg in o.segs):
                    raise SxUnsupported('symbolic path component containing "/"')
            return MPath(self.fs, self.parts + (o,))
        o = str(o)
        if o.startswith('/'):
            return MPath(self.fs, tuple(x for x in o.split('/') if x))
        return MPath(self.fs, self.parts + tuple(x for x in o.split('/') if x and x != '.'))

    def __str__(self):
        if any(isinstance(p, Sym) for p in self.parts):
            acc = ''
            for p in self.parts:
                acc = sx_add(sx_add(acc, '/'), p)
            return acc
        return '/' + '/'.join(self.parts)

    def __repr__(self):
        return f'MPath({self.parts!r})' if not has_sym(self.parts) else 'MPath(<symbolic>)'

    def __fspath__(self):
        raise SxUnsupported('model path escaped to the operating system')

    def __eq__(self, o):
        if not isinstance(o, MPath) or len(o.parts) != len(self.parts):
            return False
        for a, b in zip(self.parts, o.parts):
            if isinstance(a, Sym) or isinstance(b, Sym):
                if not bool(a == b):
                    return False
            elif a != b:
                return False
        return True

    def __ne__(self, o):
        return not self.__eq__(o)

    def __hash__(self):
        if has_sym(self.parts):
            raise SxUnsupported('hash of symbolic path')
        return hash(self.parts)

    def __lt__(self, o):
        return self.parts < o.parts

    @property
    def parent(self):
        return MPath(self.fs, self.parts[:-1])

    @property
    def name(self):
        return self.parts[-1] if self.parts else ''

    @property
    def stem(self):
        n = self.name
        if isinstance(n, Sym):
            # symbolic names are built as <atom>.<ext>: cut the literal extension
            segs = n.segs
            if segs and segs[-1][0] == 'lit' and '.' in segs[-1][1] and n.syntactic('.'):
                lit = segs[-1][1]
                return SymStr.from_segs(list(segs[:-1]) + [('lit', lit.rsplit('.', 1)[0])])
            if segs and n.syntactic('.'):
                return n
            raise SxUnsupported('stem of unstructured symbolic name')
        i = n.rfind('.')
        return n[:i] if 0 < i < len(n) - 1 else n

    @property
    def suffix(self):
        n = self.name
        if isinstance(n, Sym):
            segs = n.segs
            if segs and segs[-1][0] == 'lit' and '.' in segs[-1][1] and n.syntactic('.'):
                return '.' + segs[-1][1].rsplit('.', 1)[1]
            if segs and n.syntactic('.'):
                return ''
            raise SxUnsupported('suffix of unstructured symbolic name')
        i = n.rfind('.')
        return n[i:] if 0 < i < len(n) - 1 else ''

    def with_suffix(self, suffix):
        st = self.stem
        return MPath(self.fs, self.parts[:-1] + (_join_name(st, suffix),))

    def with_name(self, name):
        return MPath(self.fs, self.parts[:-1] + (name,))

    def relative_to(self, other):
        if self.parts[:len(other.parts)] != other.parts:
            raise ValueError('not relative')
        return MPath(self.fs, self.parts[len(other.parts):])

    def absolute(self):
        return self

    resolve = absolute

    # ---- queries (no tick)
    def _node(self):
        n = self.fs.node(self.parts)
        hops = 0
        while isinstance(n, FileNode) and n.link is not None and hops < 8:
            n = self.fs.node(n.link)
            hops += 1
        return n

    def exists(self):
        return self._node() is not None

    def is_file(self):
        n = self._node()
        return isinstance(n, FileNode)

    def is_dir(self):
        return isinstance(self._node(), DirNode)

    def is_symlink(self):
        n = self.fs.node(self.parts)
        return isinstance(n, FileNode) and n.link is not None

    def stat(self):
        n = self._node()
        if n is None:
            raise FileNotFoundError(str(self))
        return MStat(n.size() if isinstance(n, FileNode) else 4096)

    def iterdir(self):
        n = self._node()
        if not isinstance(n, DirNode):
            raise NotADirectoryError(str(self))
        return [MPath(self.fs, self.parts + (e[0],)) for e in self._listed(n)]

    def _listed(self, n):
        # listing order is unspecified on a real file system: lexicographic here, harnesses may permute
        es = list(n.entries)
        if not any(isinstance(e[0], Sym) for e in es):
            es.sort(key=lambda e: e[0])
        if getattr(self.fs, 'reverse_listing', False):
            es.reverse()
        return es

    def glob(self, pat):
        import fnmatch
        n = self._node()
        if not isinstance(n, DirNode):
            return []
        return [MPath(self.fs, self.parts + (e[0],)) for e in self._listed(n)
                if not isinstance(e[0], Sym) and fnmatch.fnmatch(e[0], pat)]

    def rglob(self, pat):
        import fnmatch
        n = self._node()
        if not isinstance(n, DirNode):           # (like pathlib: nothing for a file or a missing path)
            return []
        out = []
        for e in self._listed(n):
            child = MPath(self.fs, self.parts + (e[0],))
            if isinstance(e[0], Sym) or fnmatch.fnmatch(e[0], pat):
                out.append(child)
            if isinstance(e[1], DirNode):
                out.extend(child.rglob(pat))
        return out

    # ---- mutations (one tick each)
    def mkdir(self, mode=0o777, parents=False, exist_ok=False):
        n = self._node()
        if n is not None:
            if exist_ok and isinstance(n, DirNode):
                return
            raise FileExistsError(str(self) if not has_sym(self.parts) else 'symbolic')
        if not self.parts:
            return
        if not self.parent.exists():
            if not parents:
                raise FileNotFoundError(str(self.parent))
            self.parent.mkdir(parents=True, exist_ok=True)
        d = self.fs.node(self.parts[:-1])
        if not isinstance(d, DirNode):
            raise NotADirectoryError(str(self.parent))
        self.fs.tick(('mkdir', self.parts))
        d.entries.append([self.parts[-1], DirNode()])

    def open(self, mode='r', encoding=None, **kw):
        return MHandle(self, mode)

    def unlink(self, missing_ok=False):
        d, e = self.fs.parent_entry(self.parts)
        if e is None or isinstance(e[1], DirNode):
            if missing_ok and e is None:
                return
            raise FileNotFoundError(str(self) if not has_sym(self.parts) else 'symbolic')
        self.fs.tick(('unlink', self.parts))
        _drop(d.entries, e)

    def rmdir(self):
        d, e = self.fs.parent_entry(self.parts)
        if e is None or not isinstance(e[1], DirNode):
            raise FileNotFoundError(str(self))
        if e[1].entries:
            raise OSError('directory not empty')
        self.fs.tick(('rmdir', self.parts))
        _drop(d.entries, e)

    def symlink_to(self, target, target_is_directory=False):
        d = self.fs.node(self.parts[:-1])
        if not isinstance(d, DirNode):
            raise FileNotFoundError(str(self.parent))
        if self.fs._find(d, self.parts[-1]) is not None:
            raise FileExistsError(str(self))
        self.fs.tick(('symlink', self.parts))
        n = FileNode()
        tp = target.parts if isinstance(target, MPath) else tuple(x for x in str(target).split('/') if x)
        n.link = self.parts[:-1] + tuple(tp) if not (isinstance(target, MPath) and target.parts[:1] == self.parts[:1]
                                                   and len(target.parts) > len(self.parts) - 1) else tuple(tp)
        d.entries.append([self.parts[-1], n])

    def replace(self, target):
        """os.replace semantics: atomic; a directory cannot replace a non-empty directory"""
        t = target if isinstance(target, MPath) else self.fs.path(str(target))
        da, ea = self.fs.parent_entry(self.parts)
        if ea is None:
            raise FileNotFoundError(str(self))
        db, eb = self.fs.parent_entry(t.parts)
        if db is None:
            raise FileNotFoundError(str(t.parent))
        if eb is not None and isinstance(eb[1], DirNode):
            if not isinstance(ea[1], DirNode):
                raise IsADirectoryError(str(t))
            if eb[1].entries:
                raise OSError(39, 'Directory not empty', str(t))
        if eb is not None and isinstance(ea[1], DirNode) and not isinstance(eb[1], DirNode):
            raise NotADirectoryError(str(t))
        self.fs.tick(('rename', self.parts, t.parts))
        _drop(da.entries, ea)
        if eb is not None:
            _drop(db.entries, eb)
        db.entries.append([t.parts[-1], ea[1]])
        return t

    def rename(self, target):
        return self.replace(target)

    def touch(self):
        if not self.exists():
            self.open('w').close()

    def write_text(self, s, encoding=None, errors=None, newline=None):
        with self.open('w') as f:
            f.write(s)

    def read_text(self, encoding=None, errors=None):
        with self.open('r') as f:
            return f.read()

    def read_bytes(self):
        with self.open('rb') as f:
            return f.read()

    def write_bytes(self, b):
        with self.open('wb') as f:
            f.write(b)


class MHandle:
    def __init__(self, path, mode):
        # every attribute is set before the first tick: a crash in the constructor still runs __del__
        self.fs = path.fs
        self.path = path
        self.mode = mode
        self.binary = 'b' in mode
        self.closed = False
        self.name = str(path) if not has_sym(path.parts) else '<symbolic path>'
        self.buf = []
        self.offset = 0
        self.node = None
        self.r = None
        self.writing = any(c in mode for c in 'wax')
        fs = self.fs
        self.epoch = fs.epoch
        if self.writing:
            d = fs.node(path.parts[:-1])
            if not isinstance(d, DirNode):
                self.closed = True
                raise FileNotFoundError(self.name)
            e = fs._find(d, path.parts[-1])
            if e is not None and isinstance(e[1], DirNode):
                self.closed = True
                raise IsADirectoryError(self.name)
            try:
                fs.tick(('open-' + ('a' if 'a' in mode else 'w'), path.parts))
            except Crash:
                self.closed = True
                raise
            if e is None:
                n = FileNode()
                d.entries.append([path.parts[-1], n])
            else:
                n = e[1]
                while n.link is not None:
                    n = fs.node(n.link)
            if 'a' in mode:
                self.offset = n.size()
            else:
                n.chunks = []
            n.binary = self.binary
            self.node = n
        else:
            n = path._node()
            if not isinstance(n, FileNode):
                self.closed = True
                raise FileNotFoundError(self.name)
            self.node = n
            self.chunks = list(n.chunks)
            if all(_plain(c) and type(c) is not bytes for c in self.chunks):
                self.r = io.StringIO(''.join(self.chunks))
            elif all(type(c) is bytes for c in self.chunks):
                self.r = io.BytesIO(b''.join(self.chunks))

    # ---- writing
    def write(self, s):
        if self.closed:
            raise ValueError('I/O operation on closed file')
        if isinstance(s, Chunks):
            self.buf += s.parts
        else:
            self.buf.append(s)
        return len(s) if _plain(s) else 1

    def _publish(self, chunks):
        n = self.node
        cur = n.size()
        if self.offset > cur:
            n.chunks.append(('\x00' if not self.binary else b'\x00') * (self.offset - cur))
        elif self.offset < cur:
            # overwrite in the middle: only needed for plain str/bytes content
            if all(_plain(c) for c in n.chunks):
                whole = ('' if not self.binary else b'').join(n.chunks)
                n.chunks = [whole[:self.offset]]
                tail_from = self.offset + sum(len(c) if _plain(c) else 1 for c in chunks)
                tail = whole[tail_from:]
                n.chunks += list(chunks)
                if tail:
                    n.chunks.append(tail)
                self.offset = tail_from
                return
        n.chunks += list(chunks)
        self.offset += sum(len(c) if _plain(c) else 1 for c in chunks)

    def flush(self):
        if self.closed or not self.writing or not self.buf:
            return
        if self.epoch != self.fs.epoch:
            self.buf = []          # handle of a process that died: its buffer never reaches the disk
            return
        data, self.buf = self.buf, []
        try:
            self.fs.tick(('flush', self.path.parts, len(data)))
        except Crash:
            torn = self.fs.torn
            if torn is not None:
                self._publish(torn(data))
            raise
        self._publish(data)

    def close(self):
        if self.closed:
            return
        try:
            self.flush()
        finally:
            self.closed = True

    def __enter__(self):
        return self

    def __exit__(self, *a):
        self.close()
        return False

    def __del__(self):
        try:
            self.close()
        except Crash as c:
            self.fs.latched = c      # an exception in a finaliser cannot propagate: deliver it at the next tick

    # ---- reading
    def _need_r(self):
        if self.r is None:
            raise SxUnsupported('byte-level read of a file holding an opaque payload')
        return self.r

    def read(self, *a):
        if self.r is None and not a:
            return Chunks(self.chunks) if len(self.chunks) != 1 else self.chunks[0]
        return self._need_r().read(*a)

    def read_chunks(self):
        return list(self.chunks)

    def readline(self, *a):
        return self._need_r().readline(*a)

    def readlines(self):
        if self.r is None:
            return list(self)
        return self.r.readlines()

    def readinto(self, b):
        return self._need_r().readinto(b)

    def seek(self, *a):
        return self._need_r().seek(*a)

    def tell(self):
        return self._need_r().tell()

    def seekable(self):
        return self.r is not None

    def readable(self):
        return not self.writing

    def writable(self):
        return self.writing

    def fileno(self):
        raise OSError('model file has no descriptor')

    def __iter__(self):
        if self.r is not None:
            return iter(self.r)
        # split the chunk list into lines at '\n' inside str chunks
        lines = [[]]
        for c in self.chunks:
            if _plain(c):
                parts = c.split('\n')
                for i, p in enumerate(parts):
                    if i:
                        lines[-1].append('\n')
                        lines.append([])
                    if p:
                        lines[-1].append(p)
            else:
                lines[-1].append(c)
        if not lines[-1]:
            lines.pop()
        return iter([Chunks(ln) for ln in lines])


class Shutil:
    """Drop-in for the few shutil functions taskchain uses."""

    def __init__(self, fs):
        self.fs = fs

    def _p(self, p):
        if isinstance(p, MPath):
            return p
        if isinstance(p, SymStr):
            parts = [x for x in p.split('/') if not (type(x) is str and x == '')]
            return MPath(self.fs, tuple(parts))
        if isinstance(p, Sym):
            raise SxUnsupported('shutil with a symbolic non-string path')
        return self.fs.path(str(p))

    def rmtree(self, p, ignore_errors=False):
        p = self._p(p)
        d, e = self.fs.parent_entry(p.parts)
        if e is None or not isinstance(e[1], DirNode):
            if ignore_errors:
                return
            raise FileNotFoundError(str(p))

        def rm(node, parts):
            for ent in list(node.entries):
                if isinstance(ent[1], DirNode):
                    rm(ent[1], parts + (ent[0],))
                    self.fs.tick(('rmdir', parts + (ent[0],)))
                else:
                    self.fs.tick(('rm', parts + (ent[0],)))
                _drop(node.entries, ent)
        rm(e[1], p.parts)
        self.fs.tick(('rmdir', p.parts))
        _drop(d.entries, e)

    def move(self, a, b):
        a, b = self._p(a), self._p(b)
        da, ea = self.fs.parent_entry(a.parts)
        if ea is None:
            raise FileNotFoundError(str(a))
        db, eb = self.fs.parent_entry(b.parts)
        if db is None:
            raise FileNotFoundError(str(b.parent))
        if eb is not None and isinstance(eb[1], DirNode):
            # shutil.move into an existing directory moves *inside* it
            db = eb[1]
            name = a.parts[-1]
            if self.fs._find(db, name) is not None:
                raise OSError('destination exists')
            self.fs.tick(('rename', a.parts, b.parts + (name,)))
            _drop(da.entries, ea)
            db.entries.append([name, ea[1]])
            return
        self.fs.tick(('rename', a.parts, b.parts))
        if eb is ea:
            return                      # source and destination are the same entry
        _drop(da.entries, ea)
        if eb is not None:
            _drop(db.entries, eb)
        db.entries.append([b.parts[-1], ea[1]])

    def copyfile(self, a, b, **kw):
        a, b = self._p(a), self._p(b)
        n = a._node()
        if not isinstance(n, FileNode):
            raise FileNotFoundError(str(a))
        h = b.open('wb' if n.binary else 'w')
        for c in n.chunks:
            h.write(c)
        h.close()

    def copytree(self, a, b, symlinks=False, **kw):
        a, b = self._p(a), self._p(b)
        n = a._node()
        if not isinstance(n, DirNode):
            raise NotADirectoryError(str(a))
        b.mkdir()
        for name, ch in list(n.entries):
            if isinstance(ch, DirNode):
                self.copytree(a / name, b / name)
            else:
                self.copyfile(a / name, b / name)


def path_identity(p):
    """Stand-in for `Path(x)` inside instrumented modules: model paths pass through, strings become model paths."""
    return p
