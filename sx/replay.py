"""Generic replay: run a check's harness once with the concrete inputs of a counterexample against the PLAIN library
(no import hook, real hashlib, real file system in a temporary directory) and report whether the assertion fails."""
import ast
import json
import shutil
import sys
import tempfile

import z3

from .sym import PathAbort, SxUnsupported, to_bool_term
from .explore import ConcreteVal

MODE = {'replay': False, 'tmp': None}


class ReplayCtx:
    """Stands in for explore.Ctx: symbolic inputs become the model's concrete values, assertions are evaluated."""
    concrete = True

    def __init__(self, inputs):
        self.inputs = dict(inputs or {})
        self.failed = []
        self.passed = []
        self.pc = []
        self.vars = {}
        self.assumptions_used = set()
        self.fresh = 0

    def _get(self, name, default):
        v = self.inputs.get(name, default)
        return v

    def sym_str(self, name, exclude='', regex=None, ident=False, nonempty=False):
        v = self._get(name, 'x' if (nonempty or ident) else '')
        return v if isinstance(v, str) else str(v)

    def sym_int(self, name, lo=None, hi=None):
        v = self._get(name, lo if lo is not None else 0)
        return int(v)

    def sym_bool(self, name):
        return bool(self._get(name, False))

    def sym_val(self, name):
        v = self._get(name, None)
        return f'<opaque {v if v is not None else name}>'      # JSON-serialisable stand-in for an opaque payload

    def choice(self, name, n):
        return int(self._get(name, 0))

    def flag(self, name):
        return bool(self._get(name, False))

    def assume(self, cond):
        if not self._truth(cond):
            raise PathAbort('assumption false under the counterexample inputs')

    def _truth(self, cond):
        if type(cond) is bool:
            return cond
        t = z3.simplify(to_bool_term(cond))
        if z3.is_true(t):
            return True
        if z3.is_false(t):
            return False
        raise SxUnsupported(f'assertion did not evaluate to a constant during replay: {t}')

    def check(self, cond, label, info=None, known=None):
        ok = self._truth(cond)
        (self.passed if ok else self.failed).append((label, info))
        return ok

    def check_concrete(self, ok, label, info=None, known_id=None):
        (self.passed if ok else self.failed).append((label, info))
        return ok

    def reach(self, label):
        pass

    def observe(self, name, value):
        pass

    def path_model(self):
        return None

    def decide(self, cond):
        return self._truth(cond)

    def feasible(self, extra):
        return 'sat'


def run(mod, spec):
    """exit code: 3 = the assertion with the recorded label fails on the plain library, 0 = it holds."""
    assert 'taskchain' not in sys.modules
    import warnings
    warnings.filterwarnings('ignore')
    import logging
    logging.lastResort = logging.NullHandler()
    logging.getLogger().addHandler(logging.NullHandler())
    MODE['replay'] = True
    MODE['tmp'] = tempfile.mkdtemp(prefix='sxreplay')
    try:
        case = ast.literal_eval(spec['case'])
        ctx = ReplayCtx(spec.get('inputs'))
        ctx.replay_info = spec.get('info') or {}
        harness = mod.make_harness(case, spec.get('tier', 'quick'))
        try:
            harness(ctx)
        except PathAbort as e:
            print('replay aborted:', e)
            return 0
        want = spec['label']
        hits = [(l, i) for l, i in ctx.failed if l == want]
        if hits:
            print(f'assertion `{want}` fails on the plain library for inputs {json.dumps(spec.get("inputs"), default=str)[:600]}')
            for l, i in hits[:3]:
                print('  ', json.dumps(i, default=str)[:700])
            return 3
        if ctx.failed:
            print('other assertions failed:', [l for l, _ in ctx.failed][:5])
        print(f'assertion `{want}` holds for these inputs ({len(ctx.passed)} assertions evaluated)')
        return 0
    finally:
        shutil.rmtree(MODE['tmp'], ignore_errors=True)


if __name__ == '__main__':
    import importlib
    from sx import replay as _self        # not __main__: check modules import sx.replay and must see the same MODE
    spec = json.loads(sys.argv[1])
    sys.exit(_self.run(importlib.import_module(spec['module']), spec))
