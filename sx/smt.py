"""Solver bridge: z3 terms -> SMT-LIB2 text -> cvc5 (primary, strings) with z3 as second solver / model source.

Uninterpreted renderings (sound abstractions, see DESIGN 3.2 / 3.5):
  H   : String -> String   sha256(...).hexdigest(); per application: 64 hex digits; pairwise: equal 32-prefix => equal arg
  I2S : Int -> String      str(int); per application: decimal regex, sign, no delimiter characters; pairwise injective
"""
import time
import z3

H = z3.Function('H', z3.StringSort(), z3.StringSort())
I2S = z3.Function('I2S', z3.IntSort(), z3.StringSort())
_DIG = z3.Range('0', '9')
INT_RE = z3.Concat(z3.Option(z3.Re('-')), z3.Union(z3.Re('0'), z3.Concat(z3.Range('1', '9'), z3.Star(_DIG))))
HEX_RE = z3.Union(z3.Range('0', '9'), z3.Range('a', 'f'))
HEX64 = z3.Loop(HEX_RE, 64, 64)
I2S_EXCLUDED = "', :{}[]()=#$\"/\\_~.\n"
PREFIX = 32          # the real code slices the digest itself; this is only the collision-freedom assumption


class Stats:
    def __init__(self):
        self.feas = 0
        self.decide = 0
        self.sat = 0
        self.unsat = 0
        self.unknown = 0
        self.solver_s = 0.0
        self.cross = 0
        self.slow = []

    def merge(self, o):
        for k in ('feas', 'decide', 'sat', 'unsat', 'unknown', 'cross'):
            setattr(self, k, getattr(self, k) + getattr(o, k))
        self.solver_s += o.solver_s
        self.slow += o.slow[:5]

    def as_dict(self):
        return {'feasibility_queries': self.feas, 'deciding_queries': self.decide, 'sat': self.sat,
                'unsat': self.unsat, 'unknown': self.unknown, 'cross_checked_with_z3': self.cross,
                'solver_s': round(self.solver_s, 2)}


STATS = Stats()


_NOAPPS = set()      # ids of assertions known to contain no H / I2S application (kept alive by _KEEP)
_KEEP = []


def _walk_apps(assertions):
    hs, is_ = {}, {}
    seen = set()
    todo = [a for a in assertions if a.get_id() not in _NOAPPS]
    for a in todo:
        h1, i1 = _walk_one(a)
        if not h1 and not i1:
            _NOAPPS.add(a.get_id())
            _KEEP.append(a)
        for t in h1:
            hs[t.get_id()] = t
        for t in i1:
            is_[t.get_id()] = t
    return list(hs.values()), list(is_.values())


def _walk_one(a):
    hs, is_ = {}, {}
    seen = set()
    stack = [a]
    while stack:
        e = stack.pop()
        i = e.get_id()
        if i in seen:
            continue
        seen.add(i)
        if z3.is_app(e):
            n = e.decl().name()
            if n == 'H' and e.num_args() == 1:
                hs[e.arg(0).get_id()] = e.arg(0)
            elif n == 'I2S' and e.num_args() == 1:
                is_[e.arg(0).get_id()] = e.arg(0)
            stack.extend(e.children())
        elif z3.is_quantifier(e):
            stack.append(e.body())
    return list(hs.values()), list(is_.values())


def axioms(assertions):
    """Instantiate the H / I2S facts for the applications occurring in `assertions` (closed under the added terms)."""
    hs, ints = _walk_apps(assertions)
    ax = []
    for t in hs:
        ax.append(z3.InRe(H(t), HEX64))
        ax.append(z3.Length(H(t)) == 64)
    for i in range(len(hs)):
        for j in range(i + 1, len(hs)):
            ax.append(z3.Implies(z3.SubString(H(hs[i]), 0, PREFIX) == z3.SubString(H(hs[j]), 0, PREFIX),
                                 hs[i] == hs[j]))
    for t in ints:
        ax.append(z3.InRe(I2S(t), INT_RE))
        ax.append((t < 0) == z3.PrefixOf(z3.StringVal('-'), I2S(t)))
        ax.append(z3.Length(I2S(t)) >= 1)
        for c in I2S_EXCLUDED:
            ax.append(z3.Not(z3.Contains(I2S(t), z3.StringVal(c))))
        for lit, val in (('0', 0), ('1', 1), ('-1', -1)):
            ax.append((I2S(t) == z3.StringVal(lit)) == (t == val))
    for i in range(len(ints)):
        for j in range(i + 1, len(ints)):
            ax.append(z3.Implies(I2S(ints[i]) == I2S(ints[j]), ints[i] == ints[j]))
    return ax


def to_smt2(assertions):
    s = z3.Solver()
    s.add(assertions)
    return '(set-logic ALL)\n' + s.to_smt2()


_CACHE = {}


def cvc5_check(assertions, timeout_ms, want_model=False):
    import cvc5
    txt = to_smt2(assertions)
    if not want_model and txt in _CACHE:
        return _CACHE[txt], None
    tm = cvc5.TermManager()
    cs = cvc5.Solver(tm)
    cs.setOption('strings-exp', 'true')
    cs.setOption('tlimit-per', str(int(timeout_ms)))
    if want_model:
        cs.setOption('produce-models', 'true')
    p = cvc5.InputParser(cs)
    p.setStringInput(cvc5.InputLanguage.SMT_LIB_2_6, txt, 'q')
    sm = p.getSymbolManager()
    res = 'unknown'
    try:
        while True:
            cmd = p.nextCommand()
            if cmd.isNull():
                break
            out = cmd.invoke(cs, sm)
            if cmd.getCommandName() == 'check-sat':
                res = str(out).strip()
    except Exception as e:  # parse / option errors are inconclusive, never success
        return 'unknown', {'error': str(e)[:300]}
    if '(error' in res:
        res = 'unknown'
    if res not in ('sat', 'unsat'):
        res = 'unknown'
    model = None
    if want_model and res == 'sat':
        model = {}
        try:
            for t in sm.getDeclaredTerms():
                try:
                    if t.getSort().isFunction():
                        continue
                    model[str(t)] = str(cs.getValue(t))
                except Exception:
                    pass
        except Exception:
            pass
    if not want_model:
        _CACHE[txt] = res
    return res, model


def z3_check(assertions, timeout_ms):
    """z3 with a hard watchdog: the sequence solver does not always honour its own timeout parameter."""
    import threading
    s = z3.Solver()
    s.set('timeout', int(timeout_ms))
    s.add(assertions)
    timer = threading.Timer(timeout_ms / 1000.0 + 0.3, s.ctx.interrupt)
    timer.daemon = True
    timer.start()
    try:
        r = s.check()
    except z3.Z3Exception:
        r = z3.unknown
    finally:
        timer.cancel()
    return str(r), s


_Z3_RECENT = []          # recent z3 feasibility outcomes (True = answered): decides which solver goes first


def feasible(assertions, timeout_ms=5000):
    """('sat' | 'unsat' | 'unknown', z3 model or None) for path feasibility.
    z3 goes first while it keeps answering (fast, and its models guide later decisions); when it mostly times out on
    the current kind of formula cvc5 goes first."""
    t0 = time.time()
    full = list(assertions) + axioms(assertions)
    z3_first = sum(1 for x in _Z3_RECENT[-10:] if not x) < 5
    model = None
    r = 'unknown'
    if z3_first:
        r, zs = z3_check(full, 250)
        _Z3_RECENT.append(r != 'unknown')
        if r == 'sat':
            model = zs.model()
        if r == 'unknown':
            r, _ = cvc5_check(full, timeout_ms)
    else:
        r, _ = cvc5_check(full, timeout_ms)
        if len(_Z3_RECENT) % 50 == 49:
            _Z3_RECENT.append(True)       # probe z3 again from time to time
        else:
            _Z3_RECENT.append(False)
        if r == 'unknown':
            r, zs = z3_check(full, 1000)
            if r == 'sat':
                model = zs.model()
    STATS.feas += 1
    STATS.solver_s += time.time() - t0
    return r, model


_CHOICE_SOLVER = []


def confirm_choices(assertions, timeout_ms=5000):
    """Satisfiability of a path condition over choice variables (bounded ints / bools): one persistent z3 solver."""
    t0 = time.time()
    try:
        if not _CHOICE_SOLVER:
            _CHOICE_SOLVER.append(z3.SolverFor('QF_LIA'))
        s = _CHOICE_SOLVER[0]
        s.push()
        try:
            s.add(assertions)
            r = str(s.check())
        finally:
            s.pop()
    except z3.Z3Exception:
        del _CHOICE_SOLVER[:]
        return feasible(assertions, timeout_ms)[0]
    if r == 'unknown':
        return feasible(assertions, timeout_ms)[0]
    STATS.feas += 1
    STATS.solver_s += time.time() - t0
    return r


def decide(assertions, timeout_ms=20000, cross=True):
    """Deciding query. Returns (result, model_or_None, detail). result in sat/unsat/unknown.
    cvc5 primary; a z3 answer obtained within 2 s is compared (disagreement -> 'unknown' with detail)."""
    t0 = time.time()
    full = list(assertions) + axioms(assertions)
    r, _ = cvc5_check(full, timeout_ms)
    detail = {'cvc5': r}
    if r == 'unknown':
        zr, zs = z3_check(full, min(timeout_ms, 30000))
        detail['z3'] = zr
        r = zr
    elif cross:
        zr, zs = z3_check(full, 2000)
        detail['z3'] = zr
        if zr != 'unknown':
            STATS.cross += 1
            if zr != r:
                detail['disagreement'] = True
                r = 'unknown'
    model = None
    if r == 'sat':
        _, ints = _walk_apps(full)
        quick_model = None
        if ints:
            # cheap attempt first: keep the abstraction's integer values and pin their true decimal renderings
            m0 = get_model(full)
            zm = m0.get('__z3model__') if m0 else None
            if zm is not None:
                pins = []
                for t in ints:
                    v = zm.eval(t, model_completion=True)
                    if z3.is_int_value(v):
                        pins.append(t == v)
                        pins.append(I2S(t) == z3.StringVal(str(v.as_long())))
                pr, ps = z3_check(full + pins, 3000)
                if pr == 'unknown':
                    pr, _ = cvc5_check(full + pins, 5000)
                if pr == 'sat':
                    quick_model = get_model(full + pins)
        if ints and quick_model is not None:
            model = quick_model
            detail['exact_int_rendering'] = 'model validated with true decimal renderings'
        elif ints:
            # a model found under the I2S abstraction may be spurious: re-pose with exact decimal rendering
            exact = [z3.substitute(a, *[(I2S(t), _exact_i2s(t)) for t in ints]) for a in assertions]
            exact = exact + axioms(exact)
            er, _ = cvc5_check(exact, timeout_ms)
            if er == 'unknown':
                er, _ = z3_check(exact, min(timeout_ms, 30000))
            detail['exact_int_rendering'] = er
            if er == 'sat':
                model = get_model(exact)
            r = er
        else:
            model = get_model(full)
        if r == 'sat' and model is None:
            r = 'unknown'
            detail['no_model'] = True
    dt = time.time() - t0
    STATS.decide += 1
    STATS.solver_s += dt
    setattr(STATS, r, getattr(STATS, r) + 1)
    if dt > 5:
        STATS.slow.append(round(dt, 1))
    return r, model, detail


def _exact_i2s(t):
    return z3.If(t < 0, z3.Concat(z3.StringVal('-'), z3.IntToStr(-t)), z3.IntToStr(t))


def get_model(full):
    """Concrete values for the free constants of a satisfiable query: z3 first (2 s), else cvc5's model transferred
    into z3 by pinning every constant to its value."""
    z3_ok = sum(1 for x in _Z3_RECENT[-10:] if not x) < 5
    zr, zs = z3_check(full, 2000 if z3_ok else 300)
    if zr != 'sat':
        r, cm = cvc5_check(full, 20000, want_model=True)
        if r != 'sat' or cm is None:
            return None
        consts = {}
        for a in full:
            _collect_consts(a, consts)
        pins = []
        groups = {}
        for name, c in consts.items():
            if name not in cm:
                continue
            v = _parse_smt_value(cm[name])
            srt = c.sort()
            if srt == z3.StringSort() and isinstance(v, str):
                pins.append(c == z3.StringVal(v))
            elif srt == z3.IntSort() and isinstance(v, int) and not isinstance(v, bool):
                pins.append(c == v)
            elif srt == z3.BoolSort() and isinstance(v, bool):
                pins.append(c == v)
            elif srt.kind() == z3.Z3_UNINTERPRETED_SORT:
                groups.setdefault((str(srt), cm[name]), []).append(c)
        reps = {}
        for (srt, val), cs in groups.items():
            for c in cs[1:]:
                pins.append(cs[0] == c)
            reps.setdefault(srt, []).append(cs[0])
        for srt, rs in reps.items():
            if len(rs) > 1:
                pins.append(z3.Distinct(rs))
        zr, zs = z3_check(list(full) + pins, 10000)
        if zr != 'sat':
            out = {k: _parse_smt_value(v) for k, v in cm.items()}
            return out
    m = zs.model()
    out = {}
    for d in m.decls():
        if d.arity() == 0:
            out[d.name()] = _pyval(m[d])
    out['__z3model__'] = m
    return out


def _collect_consts(e, acc, seen=None):
    seen = seen if seen is not None else set()
    stack = [e]
    while stack:
        x = stack.pop()
        i = x.get_id()
        if i in seen:
            continue
        seen.add(i)
        if z3.is_const(x) and x.decl().kind() == z3.Z3_OP_UNINTERPRETED:
            acc[x.decl().name()] = x
        elif z3.is_app(x):
            stack.extend(x.children())


def _pyval(v):
    if z3.is_string_value(v):
        return v.as_string()
    if z3.is_int_value(v):
        return v.as_long()
    if z3.is_true(v):
        return True
    if z3.is_false(v):
        return False
    return str(v)


def _parse_smt_value(v):
    v = v.strip()
    if v.startswith('"') and v.endswith('"'):
        s = v[1:-1].replace('""', '"')
        import re
        return re.sub(r'\\u\{([0-9a-fA-F]+)\}', lambda m: chr(int(m.group(1), 16)), s)
    if v in ('true', 'false'):
        return v == 'true'
    if v.startswith('(- ') and v.endswith(')'):
        try:
            return -int(v[3:-1])
        except ValueError:
            return v
    try:
        return int(v)
    except ValueError:
        return v


def eval_in_model(model, term):
    """Evaluate a z3 term under a model returned by get_model (z3-backed models only)."""
    m = model.get('__z3model__') if model else None
    if m is None:
        return None
    return _pyval(m.eval(term, model_completion=True))
