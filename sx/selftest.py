"""Translator validation: run the repository's own test-suite with taskchain loaded through the import hook (AST
rewriting on, no symbolic values).  The instrumented code must behave exactly as the original on concrete data."""
import os
import sys


def main():
    from sx import instr
    instr.install(full=True)
    instr.HASH_MODE[0] = 'auto'
    import logging
    import taskchain.chain
    taskchain.chain.Chain.log_handler.setLevel(logging.WARNING)
    import taskchain.utils.io as IO
    import taskchain.utils.iter as IT
    IO.progress_bar = IT.progress_bar
    import pytest
    repo = os.environ.get('SX_REPO', '/repo')
    os.chdir(repo)
    sys.path.insert(0, repo)
    # doctests under src/ would import the modules by path (outside the hook): only tests/ runs here
    code = pytest.main(['tests', '-q', '-p', 'no:cacheprovider', '-o', 'addopts=', '--timeout=900'])
    print('selftest exit', code)
    sys.exit(0 if code == 0 else 2)


if __name__ == '__main__':
    main()
