"""Environment stubs bound into the instrumented taskchain modules (each one is part of the claim, DESIGN 4).

bind(fs) rebinds, in the *instrumented modules' namespaces only*:
  taskchain.data.shutil / utils.migration.copyfile,copytree  -> model shutil over MFS
  taskchain.utils.io.Path, taskchain.cache.Path               -> identity on model paths
  taskchain.data.logging.FileHandler                          -> handler over an MFS file (own offset, mode 'w')
  taskchain.data.json / utils.io.json / cache.json            -> real orjson wrapper for concrete payloads,
                                                                 uninterpreted inverse pair for symbolic payloads
  taskchain.data.yaml                                         -> same for run-info
  taskchain.data.np.save/load, pd.read_pickle, DataFrame.to_pickle -> the REAL serialiser writing into MFS
  taskchain.cache.FileLock                                    -> model mutex
"""
import io
import logging
import types

from . import mfs
from .sym import Sym, SymStr, SxUnsupported, has_sym
from .explore import ConcreteVal


def has_opaque(x, depth=6):
    if isinstance(x, (Sym, ConcreteVal)):
        return True
    if depth and type(x) in (list, tuple, set, frozenset):
        return any(has_opaque(i, depth - 1) for i in x)
    if depth and isinstance(x, dict):
        return any(has_opaque(k, depth - 1) or has_opaque(v, depth - 1) for k, v in list(x.items()))
    return False


class JsonStub:
    """taskchain.utils.json with the serialiser contract of DESIGN 4.2 for symbolic payloads."""

    def __init__(self, real):
        self.real = real
        self.calls = []

    def dumps(self, data, sort_keys=False, indent=None, as_bytes=False):
        if has_opaque(data):
            return mfs.Opaque(data, 'json')
        return self.real.dumps(data, sort_keys=sort_keys, indent=indent, as_bytes=as_bytes)

    def dump(self, data, fp, sort_keys=False, indent=None, as_bytes=False):
        fp.write(self.dumps(data, sort_keys=sort_keys, indent=indent, as_bytes=as_bytes))

    def loads(self, s):
        if isinstance(s, mfs.Opaque):
            if s.torn:
                raise ValueError('truncated serialisation (contract: a proper prefix is not loadable)')
            return s.obj
        if isinstance(s, mfs.Chunks):
            ps = [p for p in s.parts if not (isinstance(p, str) and not p.strip())]
            if len(ps) == 1 and isinstance(ps[0], mfs.Opaque):
                return self.loads(ps[0])
            raise ValueError('unparsable mixture of serialised pieces')
        return self.real.loads(s)

    def load(self, fp):
        return self.loads(fp.read())


class YamlStub:
    def __init__(self, real):
        self.real = real
        self.Loader = real.Loader

    def dump(self, data, stream=None, **kw):
        if has_opaque(data):
            stream.write(mfs.Opaque(data, 'yaml'))
            return None
        return self.real.dump(data, stream, **kw)

    def load(self, stream, Loader=None):
        if isinstance(stream, mfs.MHandle) and stream.r is None:
            cs = stream.read_chunks()
            if len(cs) == 1 and isinstance(cs[0], mfs.Opaque) and not cs[0].torn:
                return cs[0].obj
            raise ValueError('unparsable yaml')
        return self.real.load(stream, Loader or self.real.Loader)

    def __getattr__(self, n):
        return getattr(self.real, n)


class MFileHandler(logging.Handler):
    """logging.FileHandler over MFS: opened with mode 'w' (truncate), each record flushed at the handle's own offset."""
    instances = []

    def __init__(self, filename, mode='a', encoding=None, delay=False, errors=None):
        logging.Handler.__init__(self)
        self.baseFilename = filename
        self.mode = mode
        self.stream = None if delay else filename.open(mode)      # delay: opened (and truncated) by the first record
        MFileHandler.instances.append(self)

    def emit(self, record):
        if self.stream is None:
            self.stream = self.baseFilename.open(self.mode)
        msg = record.msg
        if isinstance(msg, Sym):
            self.stream.write(mfs.Chunks([msg, '\n']))
        else:
            self.stream.write(self.format(record) + '\n')
        self.stream.flush()

    def close(self):
        try:
            if self.stream is not None:
                self.stream.close()
                self.stream = None
        finally:
            logging.Handler.close(self)


class _Proxy(types.SimpleNamespace):
    def __init__(self, real, **over):
        super().__init__(**over)
        self.__dict__['_real'] = real

    def __getattr__(self, n):
        return getattr(self.__dict__['_real'], n)


class ModelLock:
    """filelock.FileLock as a mutex keyed by lock-file path (threads and processes are not distinguished)."""
    held = {}
    acquisitions = 0

    def __init__(self, path, mode=None, **kw):
        self.key = path if not isinstance(path, Sym) else id(path)

    def __enter__(self):
        if ModelLock.held.get(self.key):
            raise RuntimeError('deadlock: lock re-acquired while held')
        ModelLock.held[self.key] = True
        ModelLock.acquisitions += 1
        return self

    def __exit__(self, *a):
        ModelLock.held[self.key] = False
        return False


class Env:
    def __init__(self, fs):
        self.fs = fs


def _to_mpath(fs, p):
    if isinstance(p, mfs.MPath):
        return p
    if isinstance(p, SymStr):
        parts = [x for x in p.split('/') if not (isinstance(x, str) and x == '')]
        return mfs.MPath(fs, tuple(parts))
    if isinstance(p, str):
        return fs.path(p)
    raise SxUnsupported(f'path of type {type(p).__name__}')


_bound = {}


def bind(fs):
    """(Re)bind the environment of the instrumented taskchain modules to the model file system `fs`."""
    import taskchain.data as D
    import taskchain.utils.io as IO
    import taskchain.cache as CA
    import taskchain.utils.migration as MG
    import taskchain.utils.json as real_json
    if 'orig' not in _bound:
        import numpy as real_np
        import pandas as real_pd
        import yaml as real_yaml
        _bound['orig'] = dict(np=real_np, pd=real_pd, yaml=real_yaml, logging=logging)
    o = _bound['orig']
    sh = mfs.Shutil(fs)
    js = JsonStub(real_json)
    D.shutil = sh
    D.json = js
    IO.json = js
    CA.json = js
    D.yaml = YamlStub(o['yaml'])
    D.logging = _Proxy(logging, FileHandler=MFileHandler)
    IO.Path = lambda p: _to_mpath(fs, p)
    CA.Path = lambda p: _to_mpath(fs, p)
    CA.FileLock = ModelLock
    ModelLock.held = {}
    MG.copyfile = sh.copyfile
    MG.copytree = sh.copytree

    np = o['np']

    def np_save(path, value, **kw):
        p = _to_mpath(fs, path)
        if not (isinstance(p.name, Sym) or str(p.name).endswith('.npy')):
            p = p.with_name(p.name + '.npy')
        if has_opaque(value):
            h = p.open('wb')
            h.write(mfs.Opaque(value, 'npy'))
            h.close()
            return
        h = p.open('wb')          # numpy opens (and truncates) the target before serialising
        try:
            bio = io.BytesIO()
            np.save(bio, value, **kw)
            data = bio.getvalue()
            # the real writer issues several write() calls: header, then data
            cut = data.index(b'\n') + 1 if b'\n' in data[:200] else len(data)
            h.write(data[:cut])
            if data[cut:]:
                h.write(data[cut:])
        finally:
            h.close()

    def np_load(path, **kw):
        p = _to_mpath(fs, path)
        h = p.open('rb')
        cs = h.read_chunks()
        if len(cs) == 1 and isinstance(cs[0], mfs.Opaque):
            if cs[0].torn:
                raise ValueError('truncated npy')
            return cs[0].obj
        if any(isinstance(c, mfs.Opaque) for c in cs):
            raise ValueError('truncated npy')
        return np.load(io.BytesIO(b''.join(cs)), **kw)

    D.np = _Proxy(np, save=np_save, load=np_load)
    CA.np = _Proxy(np, save=np_save, load=np_load)

    pd = o['pd']

    def read_pickle(path, **kw):
        p = _to_mpath(fs, path)
        h = p.open('rb')
        cs = h.read_chunks()
        if len(cs) == 1 and isinstance(cs[0], mfs.Opaque):
            if cs[0].torn:
                raise EOFError('truncated pickle')
            return cs[0].obj
        if any(isinstance(c, mfs.Opaque) for c in cs):
            raise EOFError('truncated pickle')
        return pd.read_pickle(io.BytesIO(b''.join(cs)), **kw)

    D.pd = _Proxy(pd, read_pickle=read_pickle)
    CA.pd = _Proxy(pd, read_pickle=read_pickle)
    _bound['fs'] = fs
    return Env(fs)


def to_pickle(obj, path, *a, **kw):
    """`value.to_pickle(path)` with a model path (rewritten method call)."""
    fs = _bound.get('fs')
    p = _to_mpath(fs, path)
    h = p.open('wb')
    try:
        if has_opaque(obj):
            h.write(mfs.Opaque(obj, 'pickle'))
        else:
            bio = io.BytesIO()
            obj.to_pickle(bio, *a, **kw)
            data = bio.getvalue()
            h.write(data[:2])
            if data[2:]:
                h.write(data[2:])
    finally:
        h.close()
