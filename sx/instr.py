"""Import hook: load taskchain from /repo's working tree on every run, with an AST rewrite of the few constructs
through which a symbolic value would otherwise hit C code that demands a concrete str/int.

For concrete operands every rewritten construct evaluates to exactly what the original did (validated by running the
repository's own test-suite under this hook: `vcheck --selftest`).  Nothing is cached: no byte-code is written.
"""
import ast
import builtins
import importlib.abc
import importlib.machinery
import importlib.util
import os
import re as _re
import sys

import z3

from . import smt
from .sym import (Sym, SymStr, SymInt, SymBool, SymVal, SymAttrStr, SymBytes, SxUnsupported, Chars, HEX, lift, mkbool,
                  has_sym, sx_add, sx_join, sx_contains_str, to_bool_term, cur)

REPO_SRC = os.environ.get('SX_REPO_SRC', '/repo/src')
ENTERED = set()          # qualified names of taskchain functions entered (evidence: "functions encoded")


class SymDict:
    """Mapping whose keys may be symbolic (tuples of) values: linear search, equality decided by the solver."""

    def __init__(self):
        self.items_ = []

    def __bool__(self):
        return bool(self.items_)

    def __len__(self):
        return len(self.items_)

    @staticmethod
    def _eq(a, b):
        if isinstance(a, tuple) and isinstance(b, tuple):
            return len(a) == len(b) and all(SymDict._eq(x, y) for x, y in zip(a, b))
        return bool(a == b)

    def _find(self, k):
        for i, (kk, _) in enumerate(self.items_):
            if self._eq(kk, k):
                return i
        return -1

    def __contains__(self, k):
        return self._find(k) >= 0

    def __getitem__(self, k):
        i = self._find(k)
        if i < 0:
            raise KeyError(k if not has_sym(k) else 'symbolic key')
        return self.items_[i][1]

    def get(self, k, default=None):
        i = self._find(k)
        return default if i < 0 else self.items_[i][1]

    def __setitem__(self, k, v):
        i = self._find(k)
        if i < 0:
            self.items_.append((k, v))
        else:
            self.items_[i] = (k, v)

    def __delitem__(self, k):
        i = self._find(k)
        if i < 0:
            raise KeyError('symbolic key')
        del self.items_[i]

    def keys(self):
        return [k for k, _ in self.items_]

    def values(self):
        return [v for _, v in self.items_]

    def items(self):
        return list(self.items_)

    def __iter__(self):
        return iter(self.keys())


class SymHash:
    """Stand-in for hashlib.sha256(...) over a symbolic text: hexdigest() is the uninterpreted H(text)."""

    def __init__(self, s):
        self.s = s

    def hexdigest(self):
        t = smt.H(self.s.t)
        return SymStr(t, [('atom', t, HEX)], (self.s, None, None))


HASH_MODE = ['auto']      # 'auto': real sha256 for concrete text, H(text) for symbolic; 'uf': always H(text)


def sx_sha256(data=b''):
    if isinstance(data, SymBytes):
        return SymHash(data.s)
    if HASH_MODE[0] == 'uf' and isinstance(data, bytes):
        try:
            return SymHash(SymStr(z3.StringVal(data.decode()), None))
        except UnicodeDecodeError:
            pass
    import hashlib
    return hashlib.sha256(data)


class _Match:
    def __init__(self, groups):
        self.g = groups

    def group(self, k=0):
        return self.g[k]

    def __getitem__(self, k):
        return self.g[k]


class SX:
    """Intrinsics the rewritten code calls."""
    Unsupported = SxUnsupported
    trace_entry = False

    @staticmethod
    def enter(qualname):
        ENTERED.add(qualname)

    # ---- builtins (intercepted only when the evaluated callee *is* the builtin and an argument is symbolic)
    @staticmethod
    def b(fn, name, *args):
        if name == 'Path':
            if len(args) == 1 and isinstance(args[0], SymStr):
                return SymPathObj(args[0])
            if len(args) == 1 and isinstance(args[0], SymPathObj):
                return args[0]
            return fn(*args)
        if args and isinstance(args[0], SymPathObj) and name in ('repr', 'str') and getattr(builtins, name) is fn:
            if name == 'str':
                return SX.b_str(args[0].s)
            return sx_add(sx_add('PosixPath(', SX.b_repr(SymStr(args[0].s.t, args[0].s.segs))), ')')
        if name in ('hasattr', 'getattr') and len(args) >= 2 and isinstance(args[1], Sym) and getattr(builtins, name) is fn:
            # attribute looked up by a symbolic NAME: linear search over the object's public attributes
            obj, nm = args[0], args[1]
            for cand in [a for a in dir(obj) if not a.startswith('__')]:
                if bool(nm == cand):
                    return True if name == 'hasattr' else builtins.getattr(obj, cand)
            if name == 'hasattr':
                return False
            if len(args) > 2:
                return args[2]
            raise AttributeError('symbolic attribute name')
        if args and getattr(builtins, name, None) is fn:
            a0 = args[0]
            if name == 'str' and type(a0).__name__ == 'MPath':
                return a0.__str__()           # may be a symbolic string (symbolic file name)
            if isinstance(a0, Sym) or (name in ('repr', 'str', 'sorted', 'list', 'format', 'print') and
                                       (has_sym(a0) or _has_symset(a0))):
                return getattr(SX, 'b_' + name)(*args)
        return fn(*args)

    @staticmethod
    def dyn(fn, a):
        if isinstance(a, Sym):
            for nm in ('str', 'int', 'bool', 'repr', 'len'):
                if fn is getattr(builtins, nm):
                    return SX.b(fn, nm, a)
        return fn(a)

    @staticmethod
    def b_hash(v):
        raise SxUnsupported('hash() of symbolic value')

    @staticmethod
    def b_print(*a):
        return None

    @staticmethod
    def b_int(v, *a):
        if isinstance(v, SymInt):
            return v
        if isinstance(v, SymBool):
            return SymInt(z3.If(v.t, 1, 0))
        raise SxUnsupported('int() of symbolic string')

    @staticmethod
    def b_bool(v):
        return bool(v)

    @staticmethod
    def b_format(v, spec=''):
        if spec:
            raise SxUnsupported('format spec on symbolic value')
        return SX.b_str(v)

    @staticmethod
    def b_sorted(v, *a):
        return sorted(v, *a)

    @staticmethod
    def b_list(v):
        return list(v)

    @staticmethod
    def b_type(o, *a):
        if a:
            return builtins.type(o, *a)
        return o.__class__

    @staticmethod
    def b_len(o):
        if isinstance(o, SymStr):
            return SymInt(z3.Length(o.t))
        raise SxUnsupported('len() of symbolic non-string')

    @staticmethod
    def b_hasattr(o, n):
        return builtins.hasattr(type(o), n) or n in getattr(o, '__dict__', {}) or builtins.hasattr(o.__class__, n)

    @staticmethod
    def b_str(v=''):
        if isinstance(v, SymStr):
            tp = type(v)
            if '__str__' in tp.__dict__ and tp not in (SymStr, SymAttrStr):
                return tp.__dict__['__str__'](v)
            return SymStr(v.t, v.segs)
        if isinstance(v, SymInt):
            t = smt.I2S(v.t)
            return SymStr(t, [('atom', t, Chars(smt.I2S_EXCLUDED))])
        if isinstance(v, SymBool):
            return SymStr(z3.If(v.t, z3.StringVal('True'), z3.StringVal('False')),
                          [('atom', z3.If(v.t, z3.StringVal('True'), z3.StringVal('False')), Chars('Truefals', True))])
        if isinstance(v, SymVal):
            raise SxUnsupported('str() of opaque payload')
        return SX.render(v, 's')

    @staticmethod
    def b_repr(v):
        if isinstance(v, SymStr):
            tp = type(v)
            if '__repr__' in tp.__dict__:
                return tp.__dict__['__repr__'](v)
            return SX.pyrepr_str(v)
        if isinstance(v, (SymInt, SymBool)):
            return SX.b_str(v)
        if isinstance(v, SymVal):
            raise SxUnsupported('repr() of opaque payload')
        return SX.render(v, 'r')

    @staticmethod
    def render(v, conv):
        """Python's str()/repr() of a container holding symbolic leaves, in Python's own format."""
        if isinstance(v, Sym):
            return SX.b_repr(v)
        if type(v) is list:
            return SX._wrap('[', ']', [SX.render(x, 'r') for x in v])
        if type(v) is tuple:
            items = [SX.render(x, 'r') for x in v]
            if len(items) == 1:
                return sx_add(sx_add('(', items[0]), ',)')
            return SX._wrap('(', ')', items)
        if type(v) is dict:
            return SX._wrap('{', '}', [sx_add(sx_add(SX.render(k, 'r'), ': '), SX.render(x, 'r')) for k, x in v.items()])
        if type(v) in (set, frozenset):
            raise SxUnsupported('repr of a set holding symbolic values')
        if isinstance(v, SymSet):
            if not v.items:
                return 'set()'
            return SX._wrap('{', '}', [SX.render(x, 'r') for x in v.ordered()])
        if has_sym(v):
            raise SxUnsupported(f'repr of {type(v).__name__} holding symbolic values')
        return builtins.repr(v) if conv == 'r' else builtins.str(v)

    @staticmethod
    def _wrap(a, b, items):
        acc = a
        for i, it in enumerate(items):
            if i:
                acc = sx_add(acc, ', ')
            acc = sx_add(acc, it)
        return sx_add(acc, b)

    @staticmethod
    def pyrepr_str(v):
        """repr() of a symbolic str: modelled only where no escaping can occur (printable, no backslash: asserted by
        the harness through the atom classes); forks on the quote character as CPython does."""
        c = cur()
        if c.decide(z3.Not(z3.Contains(v.t, z3.StringVal("'")))):
            return sx_add(sx_add("'", SymStr(v.t, v.segs)), "'")
        # contains ' : CPython switches to double quotes unless the string also contains "; that case needs
        # escaping, which is not modelled -> assumed away (recorded as an assumption of the run)
        c.assume(z3.Not(z3.Contains(v.t, z3.StringVal('"'))))
        c.assumptions_used.add('strings rendered by Python repr() do not contain both quote characters')
        return sx_add(sx_add('"', SymStr(v.t, v.segs)), '"')

    SYMBOLIC_SET_ORDER = [False]

    @staticmethod
    def mkset(items):
        """A set comprehension: a real set, unless the harness asked for symbolic iteration order."""
        if SX.SYMBOLIC_SET_ORDER[0]:
            out = []
            for x in items:
                if not any(SymDict._eq(x, y) for y in out):
                    out.append(x)
            # one interpreter = one hash seed: equal sets iterate in the same order wherever they are built; the
            # harness names the interpreter (SYMBOLIC_SET_ORDER[0]) so that two chains can stand for two processes
            key = '_'.join(sorted(builtins.repr(x) if not isinstance(x, Sym) else 'sym' for x in out))
            return SymSet(out, f'set{SX.SYMBOLIC_SET_ORDER[0]}_{abs(builtins.hash(key)) % 100000}')
        return set(items)

    # ---- f-strings
    @staticmethod
    def fstr(parts):
        if not any(isinstance(p, Sym) for p in parts):
            return ''.join(parts)
        acc = ''
        for p in parts:
            acc = sx_add(acc, p)
        return acc

    @staticmethod
    def fv(v, conv, spec):
        if type(v).__name__ == 'MPath' and conv in (-1, ord('s')) and spec in (None, ''):
            v = v.__str__()               # a model path with a symbolic component renders as a symbolic string
        if isinstance(v, Sym):
            if spec not in (None, ''):
                raise SxUnsupported('format spec on symbolic value')
            if conv == ord('r'):
                return SX.b_repr(v)
            return SX.b_str(v)
        if has_sym(v):
            # a container with symbolic leaves formatted into an f-string: in taskchain this only happens in log and
            # error messages -> fresh unconstrained string (sound over-approximation; key texts use repr()/str() calls)
            c = cur()
            c.fresh += 1
            return SymStr(z3.String(f'havoc_fmt_{c.fresh}'))
        if conv == ord('r'):
            v = repr(v)
        elif conv == ord('s'):
            v = str(v)
        elif conv == ord('a'):
            v = ascii(v)
        if isinstance(spec, Sym):
            raise SxUnsupported('symbolic format spec')
        return format(v, spec or '')

    # ---- operators
    @staticmethod
    def contains(item, container):
        if isinstance(container, (SymStr,)) or (isinstance(container, str) and isinstance(item, Sym)):
            return sx_contains_str(container, item)
        if isinstance(item, Sym) or (type(item) is tuple and has_sym(item, 1)):
            if isinstance(container, (SymDict, SymSet)):
                return item in container
            if isinstance(container, (list, tuple, dict)) or type(container).__name__ in ('dict_keys', 'dict_values'):
                for c in container:
                    if SymDict._eq(c, item):
                        return True
                return False
            if isinstance(container, (set, frozenset)):
                for c in container:
                    if SymDict._eq(c, item):
                        return True
                return False
            return item in container     # user classes: their own (instrumented) __contains__
        return item in container

    @staticmethod
    def getitem(obj, key):
        if isinstance(key, Sym) and type(obj) is dict:
            for k in obj:
                if key == k:
                    return obj[k]
            raise KeyError('symbolic key')
        return obj[key]

    # ---- method calls
    @staticmethod
    def method(obj, name, args, kwargs):
        if obj is _re or (name in ('subn', 'sub', 'match', 'fullmatch') and getattr(obj, '__name__', None) == 're'):
            if name in ('subn', 'sub', 'match', 'fullmatch') and len(args) >= 2 and isinstance(args[-1], Sym) \
                    or (name in ('subn', 'sub') and len(args) == 3 and isinstance(args[2], Sym)):
                return SX.regex(name, *args, **kwargs)
            if name in ('subn', 'sub') and len(args) == 3 and args[0] == r'{(.*?)}' and type(args[2]) is str:
                # concrete subject whose replacement callback may return a symbolic string
                try:
                    return getattr(obj, name)(*args, **kwargs)
                except TypeError as e:
                    if 'expected str instance' not in str(e):
                        raise
                    res, n = SX._subn_braces(args[1], SymStr(z3.StringVal(args[2]), [('lit', args[2])]))
                    return (res, n) if name == 'subn' else res
            return getattr(obj, name)(*args, **kwargs)
        if name == 'to_pickle' and args:
            from . import mfs, env
            if isinstance(args[0], mfs.MPath):
                return env.to_pickle(obj, *args, **kwargs)
        if name == '__new__' and obj is str and len(args) == 2 and isinstance(args[1], SymStr):
            if args[0] is str:
                return args[1]
            return SX.str_new(args[0], args[1])
        if isinstance(obj, str) and not isinstance(obj, Sym):
            if name == 'join':
                items = list(args[0])
                if any(type(x).__name__ in ('Opaque', 'Chunks') for x in items):
                    from . import mfs as _m
                    parts = []
                    for i, x in enumerate(items):
                        if i:
                            parts.append(obj)
                        parts.append(x)
                    return _m.Chunks(parts)
                if has_sym(items, 1):
                    return sx_join(obj, items)
                return obj.join(items)
            if has_sym(args, 2):
                a0 = args[0]
                if name in ('startswith', 'endswith') and isinstance(a0, SymStr):
                    from .sym import _seg_affix
                    r = _seg_affix(obj, a0, name == 'endswith')
                    if r is not None:
                        return r
                    if name == 'startswith':
                        return mkbool(z3.PrefixOf(lift(a0), z3.StringVal(obj)))
                    return mkbool(z3.SuffixOf(lift(a0), z3.StringVal(obj)))
                if name == 'replace' and isinstance(args[1], Sym) and not isinstance(a0, Sym) and a0:
                    parts = obj.split(a0)
                    acc = parts[0]
                    for p in parts[1:]:
                        acc = sx_add(sx_add(acc, args[1]), p)
                    return acc
                if name == 'format':
                    raise SxUnsupported('str.format with symbolic arguments')
                raise SxUnsupported(f'str.{name} with symbolic arguments')
        return getattr(obj, name)(*args, **kwargs)

    _proxy_classes = {}

    @staticmethod
    def str_new(cls, value):
        pc = SX._proxy_classes.get(cls)
        if pc is None:
            ns = {k: v for k, v in cls.__dict__.items()
                  if k not in ('__new__', '__dict__', '__weakref__', '__module__', '__doc__')}
            ns['__class__'] = property(lambda self, cls=cls: cls)
            ns['__slots__'] = ()
            pc = SX._proxy_classes[cls] = type('Sym' + cls.__name__, (SymAttrStr,), ns)
        return pc(value.t, value.segs)

    # ---- regular expressions on symbolic subjects: only the shapes taskchain uses
    @staticmethod
    def regex(name, pattern, *rest, **kw):
        if name in ('subn', 'sub'):
            repl, string = rest[0], rest[1]
            if pattern != r'{(.*?)}' or not isinstance(string, SymStr) or not string.syntactic('{}\n'):
                raise SxUnsupported(f're.{name}({pattern!r}) on symbolic subject')
            res, n = SX._subn_braces(repl, string)
            return (res, n) if name == 'subn' else res
        if name == 'match' and pattern == r'(.*) as (.*)':
            string = rest[0]
            if isinstance(string, SymStr) and string.syntactic(' \n'):
                # greedy first group: split at the LAST literal ' as '
                flat = string.segs
                for i in range(len(flat) - 1, -1, -1):
                    sg = flat[i]
                    if sg[0] == 'lit' and ' as ' in sg[1]:
                        j = sg[1].rindex(' as ')
                        left = SymStr.from_segs(list(flat[:i]) + [('lit', sg[1][:j])])
                        right = SymStr.from_segs([('lit', sg[1][j + 4:])] + list(flat[i + 1:]))
                        return _Match([string, left, right])
                return None
        raise SxUnsupported(f're.{name}({pattern!r}) on symbolic subject')

    @staticmethod
    def _subn_braces(repl, string):
        toks = []
        for sg in string.segs:
            if sg[0] == 'lit':
                toks += [('c', ch) for ch in sg[1]]
            else:
                toks.append(sg)

        def seg(ts):
            return SymStr.from_segs([('lit', t[1]) if t[0] == 'c' else t for t in ts])
        out = []
        i = 0
        n = 0
        while i < len(toks):
            if toks[i] == ('c', '{'):
                j = i + 1
                ok = False
                while j < len(toks):
                    if toks[j] == ('c', '}'):
                        ok = True
                        break
                    if toks[j] == ('c', '\n'):
                        break
                    j += 1
                if ok:
                    r = repl(_Match([seg(toks[i:j + 1]), seg(toks[i + 1:j])]))
                    out.append(r)
                    n += 1
                    i = j + 1
                    continue
            out.append(seg([toks[i]]))
            i += 1
        res = ''
        for o in out:
            res = sx_add(res, o)
        return res, n


def _has_symset(x, depth=3):
    if isinstance(x, SymSet):
        return True
    if depth and type(x) in (list, tuple):
        return any(_has_symset(i, depth - 1) for i in x)
    if depth and type(x) is dict:
        return any(_has_symset(v, depth - 1) for v in x.values())
    return False


class SymPathObj:
    """pathlib.Path(<symbolic string>): only its identity as a Path and its source string are meaningful."""
    import pathlib as _pl
    __class__ = property(lambda self, _c=_pl.PosixPath: _c)

    def __init__(self, s):
        self.s = s

    def __eq__(self, o):
        if isinstance(o, SymPathObj):
            return self.s == o.s
        return False

    def __ne__(self, o):
        return not self.__eq__(o)

    __hash__ = None

    def __str__(self):
        raise SxUnsupported('str() of a symbolic path')

    def __fspath__(self):
        raise SxUnsupported('symbolic path used on the file system')


class SymSet:
    """A set whose rendering order is a symbolic permutation (models PYTHONHASHSEED); elements concrete or symbolic."""

    def __init__(self, items, tag='set'):
        self.items = list(items)
        self.tag = tag

    __class__ = property(lambda self: set)

    def ordered(self):
        c = cur()
        memo = c.__dict__.setdefault('set_orders', {})
        if memo.get('__path__') != c.paths:
            memo.clear()
            memo['__path__'] = c.paths
        if self.tag in memo:
            idx = memo[self.tag]
        else:
            rest = list(range(len(self.items)))
            idx = []
            k = 0
            while len(rest) > 1:
                i = c.choice(f'{self.tag}_perm{k}_{len(rest)}', len(rest))
                idx.append(rest.pop(i))
                k += 1
            idx += rest
            memo[self.tag] = idx
        return [self.items[i] for i in idx]

    def __iter__(self):
        return iter(self.ordered())

    def __len__(self):
        return len(self.items)

    def __contains__(self, x):
        return any(SymDict._eq(x, y) for y in self.items)

    def __eq__(self, o):
        if isinstance(o, SymSet):
            return len(o.items) == len(self.items) and all(x in o for x in self.items)
        if isinstance(o, (set, frozenset)):
            return len(o) == len(self.items) and all(x in o for x in self.items)
        return False

    def __hash__(self):
        raise SxUnsupported('hash of SymSet')


STR_METHODS = {'to_pickle', '__new__', 'subn', 'sub', 'match', 'fullmatch', 'join', 'startswith', 'endswith', 'replace', 'format'}
BUILTINS = {'getattr', 'Path', 'type', 'len', 'repr', 'str', 'hasattr', 'hash', 'int', 'format', 'sorted', 'list', 'bool', 'print'}


def _sx(attr):
    return ast.Attribute(ast.Name('_sx_', ast.Load()), attr, ast.Load())


class Rewrite(ast.NodeTransformer):
    def __init__(self, modname, full=True):
        self.modname = modname
        self.full = full
        self.stack = []

    def _func(self, node):
        self.stack.append(node.name)
        self.generic_visit(node)
        q = f'{self.modname}.{".".join(self.stack)}'
        self.stack.pop()
        pro = ast.Expr(ast.Call(_sx('enter'), [ast.Constant(q)], []))
        body = node.body
        k = 1 if (body and isinstance(body[0], ast.Expr) and isinstance(getattr(body[0], 'value', None), ast.Constant)
                  and isinstance(body[0].value.value, str)) else 0
        node.body = body[:k] + [pro] + body[k:]
        return node

    visit_FunctionDef = _func
    visit_AsyncFunctionDef = _func

    def visit_ClassDef(self, node):
        self.stack.append(node.name)
        self.generic_visit(node)
        self.stack.pop()
        return node

    def visit_JoinedStr(self, node):
        self.generic_visit(node)
        if not self.full:
            return node
        parts = []
        for v in node.values:
            if isinstance(v, ast.Constant):
                parts.append(v)
            else:
                spec = v.format_spec if v.format_spec is not None else ast.Constant(None)
                if isinstance(spec, ast.Call) and isinstance(spec.func, ast.Attribute) and spec.func.attr == 'fstr':
                    pass
                parts.append(ast.Call(_sx('fv'), [v.value, ast.Constant(v.conversion), spec], []))
        return ast.Call(_sx('fstr'), [ast.List(parts, ast.Load())], [])

    def visit_Call(self, node):
        self.generic_visit(node)
        if not self.full:
            return node
        f = node.func
        if (isinstance(f, ast.Name) and f.id in BUILTINS and not node.keywords
                and not any(isinstance(a, ast.Starred) for a in node.args)):
            return ast.Call(_sx('b'), [f, ast.Constant(f.id)] + node.args, [])
        if (isinstance(f, ast.Attribute) and f.attr in STR_METHODS
                and not any(isinstance(a, ast.Starred) for a in node.args)
                and not any(k.arg is None for k in node.keywords)):
            return ast.Call(_sx('method'),
                            [f.value, ast.Constant(f.attr), ast.Tuple(node.args, ast.Load()),
                             ast.Dict([ast.Constant(k.arg) for k in node.keywords], [k.value for k in node.keywords])],
                            [])
        if (not isinstance(f, ast.Name) and len(node.args) == 1 and not node.keywords
                and not isinstance(node.args[0], ast.Starred)):
            # a builtin reached through a variable or attribute, e.g. `self.dtype(value)` with dtype = str
            return ast.Call(_sx('dyn'), [f, node.args[0]], [])
        return node

    def visit_Subscript(self, node):
        self.generic_visit(node)
        if not self.full:
            return node
        if isinstance(node.ctx, ast.Load) and not isinstance(node.slice, ast.Slice):
            return ast.Call(_sx('getitem'), [node.value, node.slice], [])
        return node

    def visit_SetComp(self, node):
        self.generic_visit(node)
        if not self.full:
            return node
        return ast.Call(_sx('mkset'), [ast.ListComp(node.elt, node.generators)], [])

    def visit_Compare(self, node):
        self.generic_visit(node)
        if not self.full:
            return node
        if len(node.ops) == 1 and isinstance(node.ops[0], (ast.In, ast.NotIn)):
            c = ast.Call(_sx('contains'), [node.left, node.comparators[0]], [])
            if isinstance(node.ops[0], ast.NotIn):
                return ast.UnaryOp(ast.Not(), c)
            return c
        return node


class SxLoader(importlib.machinery.SourceFileLoader):
    full = True

    def source_to_code(self, data, path, *, _optimize=-1):
        tree = ast.parse(data, path)
        # keep `from __future__` imports first
        tree = Rewrite(self.name, self.full).visit(tree)
        ast.fix_missing_locations(tree)
        return compile(tree, path, 'exec', dont_inherit=True, optimize=_optimize)

    def get_code(self, fullname):
        # never read or write cached byte-code
        path = self.get_filename(fullname)
        return self.source_to_code(self.get_data(path), path)

    def exec_module(self, module):
        module.__dict__['_sx_'] = SX
        super().exec_module(module)


class SxFinder(importlib.abc.MetaPathFinder):
    def __init__(self, root, pkg, full):
        self.root, self.pkg, self.full = root, pkg, full

    def find_spec(self, fullname, path, target=None):
        if fullname != self.pkg and not fullname.startswith(self.pkg + '.'):
            return None
        rel = fullname.split('.')[1:]
        base = os.path.join(self.root, self.pkg, *rel)
        loader_cls = type('L', (SxLoader,), {'full': self.full})
        if os.path.isdir(base):
            fn = os.path.join(base, '__init__.py')
            return importlib.util.spec_from_file_location(fullname, fn, loader=loader_cls(fullname, fn),
                                                          submodule_search_locations=[base])
        fn = base + '.py'
        if os.path.exists(fn):
            return importlib.util.spec_from_file_location(fullname, fn, loader=loader_cls(fullname, fn))
        return None


_installed = [False]


def install(full=True, root=None, pkg='taskchain'):
    """Install the hook (once per process). full=False: pass-through mode (function-entry recording only)."""
    if _installed[0]:
        return
    assert pkg not in sys.modules, 'taskchain imported before the hook was installed'
    sys.dont_write_bytecode = True
    sys.meta_path.insert(0, SxFinder(root or REPO_SRC, pkg, full))
    _installed[0] = True
    import warnings
    warnings.filterwarnings('ignore')
    import taskchain  # noqa
    import taskchain.chain
    import taskchain.cache
    if full:
        taskchain.chain.sha256 = sx_sha256
        taskchain.cache.sha256 = sx_sha256
    import taskchain.utils.io
    taskchain.utils.io.progress_bar = lambda data, **kw: data      # progress output is formatting, not behaviour
    import logging
    # console output of task loggers is noise here; handlers themselves are left alone (C18 looks at them)
    taskchain.chain.Chain.log_handler.setLevel(logging.CRITICAL)
    logging.lastResort = logging.NullHandler()
    logging.getLogger().addHandler(logging.NullHandler())      # keeps logging.warning() from calling basicConfig()


def entered(prefixes=None):
    return sorted(q for q in ENTERED if prefixes is None or any(q.startswith(p) for p in prefixes))
