"""Symbolic value proxies: z3 terms behind objects that real (instrumented) taskchain code can compute with.

SymStr / SymInt / SymBool / SymVal wrap z3 terms.  They report str / int / bool / object as their ``__class__`` so
that the builtin ``isinstance`` (and taskchain's own MRO-name based one) work unmodified.  Anything that would need a
concrete value outside instrumented code (hashing, C-level str(), iteration) raises SxUnsupported, a BaseException:
the check then ends *inconclusive*, it never turns into a spurious error inside the code under test.
"""
import z3


class SxUnsupported(BaseException):
    """A symbolic value reached something the engine cannot model -> the check is inconclusive (exit 2)."""


class PathAbort(BaseException):
    """The current path is infeasible / was cut by an assumption."""


def cur():
    from . import explore
    c = explore.Ctx.cur
    if c is None:
        raise SxUnsupported('symbolic value used outside an exploration')
    return c


# ------------------------------------------------------------------ character classes for string atoms
class Chars:
    """Set of characters an atom may contain: either 'everything except `chars`' or 'only `chars`'."""
    __slots__ = ('only', 'chars')

    def __init__(self, chars, only=False):
        self.only = only
        self.chars = frozenset(chars)

    def may_contain(self, ch):
        return (ch in self.chars) if self.only else (ch not in self.chars)

    def excludes_all(self, s):
        return not any(self.may_contain(c) for c in s)

    def regex(self):
        """z3 regular expression of strings over this class (used to assert the class in the solver)."""
        if self.only:
            if not self.chars:
                return z3.Re('')
            return z3.Star(z3.Union(*[z3.Re(c) for c in sorted(self.chars)]) if len(self.chars) > 1
                           else z3.Re(next(iter(self.chars))))
        return None

    def constraints(self, term):
        if self.only:
            return [z3.InRe(term, self.regex())]
        return [z3.Not(z3.Contains(term, z3.StringVal(c))) for c in sorted(self.chars)]


HEX = Chars('0123456789abcdef', only=True)


def lift(x):
    if isinstance(x, Sym):
        return x.t
    if isinstance(x, bool):
        return z3.BoolVal(x)
    if isinstance(x, int):
        return z3.IntVal(x)
    if isinstance(x, str):
        return z3.StringVal(x)
    if z3.is_expr(x):
        return x
    raise SxUnsupported(f'cannot lift {type(x).__name__} into the solver')


def has_sym(x, depth=4):
    if isinstance(x, Sym):
        return True
    if depth and type(x) in (list, tuple, set, frozenset):
        return any(has_sym(i, depth - 1) for i in x)
    if depth and isinstance(x, dict):
        return any(has_sym(k, depth - 1) or has_sym(v, depth - 1) for k, v in list(x.items()))
    return False


class Sym:
    __slots__ = ('t',)

    def __init__(self, t):
        self.t = t

    def __hash__(self):
        raise SxUnsupported('hash of a symbolic value')

    def __index__(self):
        raise SxUnsupported('index from a symbolic value')

    def __iter__(self):
        raise SxUnsupported('iteration over a symbolic value')

    def __str__(self):
        raise SxUnsupported('str() of a symbolic value outside instrumented code')

    def __repr__(self):
        raise SxUnsupported('repr() of a symbolic value outside instrumented code')

    def __format__(self, s):
        raise SxUnsupported('format() of a symbolic value outside instrumented code')

    def __fspath__(self):
        raise SxUnsupported('symbolic value used as a file-system path')

    def __copy__(self):
        return self

    def __deepcopy__(self, memo):
        return self

    def __reduce__(self):
        raise SxUnsupported('pickling a symbolic value')

    def dbg(self):
        return f'<{type(self).__name__} {self.t}>'


def mkbool(t):
    t = z3.simplify(t)
    if z3.is_true(t):
        return True
    if z3.is_false(t):
        return False
    return SymBool(t)


def to_bool_term(x):
    if z3.is_expr(x):
        return x
    if isinstance(x, SymBool):
        return x.t
    if isinstance(x, bool):
        return z3.BoolVal(x)
    if isinstance(x, Sym):
        return truth_term(x)
    return z3.BoolVal(bool(x))


def truth_term(x):
    if isinstance(x, SymBool):
        return x.t
    if isinstance(x, SymInt):
        return x.t != 0
    if isinstance(x, SymStr):
        return z3.Length(x.t) > 0
    if isinstance(x, SymVal):
        return SymVal.Truthy(x.t)
    return z3.BoolVal(bool(x))


class SymBool(Sym):
    __slots__ = ()
    __class__ = property(lambda self: bool)

    def __bool__(self):
        return cur().decide(self.t)

    def __eq__(self, o):
        if isinstance(o, SymBool) or isinstance(o, bool):
            return mkbool(self.t == lift(o))
        if isinstance(o, (int, SymInt)):
            return mkbool(z3.If(self.t, 1, 0) == lift(o))
        return False

    def __ne__(self, o):
        r = self.__eq__(o)
        return mkbool(z3.Not(to_bool_term(r)))

    __hash__ = Sym.__hash__

    def __invert__(self):
        raise SxUnsupported('~ on symbolic bool')

    def __and__(self, o):
        return mkbool(z3.And(self.t, to_bool_term(o)))

    __rand__ = __and__

    def __or__(self, o):
        return mkbool(z3.Or(self.t, to_bool_term(o)))

    __ror__ = __or__


def _num(o):
    """z3 Int term for a python/symbolic number-like, or None."""
    if isinstance(o, SymInt):
        return o.t
    if isinstance(o, SymBool):
        return z3.If(o.t, 1, 0)
    if isinstance(o, bool):
        return z3.IntVal(1 if o else 0)
    if isinstance(o, int):
        return z3.IntVal(o)
    return None


class SymInt(Sym):
    __slots__ = ()
    __class__ = property(lambda self: int)

    def __eq__(self, o):
        n = _num(o)
        if n is not None:
            return mkbool(self.t == n)
        if isinstance(o, float):
            if o != o or o in (float('inf'), float('-inf')) or o != int(o):
                return False
            return mkbool(self.t == int(o))
        return False

    def __ne__(self, o):
        return mkbool(z3.Not(to_bool_term(self.__eq__(o))))

    __hash__ = Sym.__hash__

    def _cmp(self, o, f):
        n = _num(o)
        if n is None:
            raise SxUnsupported(f'compare symbolic int with {type(o).__name__}')
        return mkbool(f(self.t, n))

    def __lt__(self, o):
        return self._cmp(o, lambda a, b: a < b)

    def __le__(self, o):
        return self._cmp(o, lambda a, b: a <= b)

    def __gt__(self, o):
        return self._cmp(o, lambda a, b: a > b)

    def __ge__(self, o):
        return self._cmp(o, lambda a, b: a >= b)

    def _ar(self, o, f):
        n = _num(o)
        if n is None:
            return NotImplemented
        return SymInt(z3.simplify(f(self.t, n)))

    def __add__(self, o):
        return self._ar(o, lambda a, b: a + b)

    def __radd__(self, o):
        return self._ar(o, lambda a, b: b + a)

    def __sub__(self, o):
        return self._ar(o, lambda a, b: a - b)

    def __rsub__(self, o):
        return self._ar(o, lambda a, b: b - a)

    def __mul__(self, o):
        if isinstance(o, Sym):
            raise SxUnsupported('symbolic * symbolic')
        return self._ar(o, lambda a, b: a * b)

    __rmul__ = __mul__

    def __neg__(self):
        return SymInt(-self.t)

    def __bool__(self):
        return cur().decide(self.t != 0)


class SymVal(Sym):
    """Opaque payload of an uninterpreted sort: supports only equality, identity and (symbolic) truthiness."""
    __slots__ = ()
    Sort = z3.DeclareSort('Val')
    Truthy = z3.Function('truthy', Sort, z3.BoolSort())
    __class__ = property(lambda self: object)

    def __eq__(self, o):
        if isinstance(o, SymVal):
            return mkbool(self.t == o.t)
        return False

    def __ne__(self, o):
        return mkbool(z3.Not(to_bool_term(self.__eq__(o))))

    __hash__ = Sym.__hash__

    def __bool__(self):
        return cur().decide(SymVal.Truthy(self.t))


class SymStr(Sym):
    __slots__ = ('segs', 'src')
    __class__ = property(lambda self: str)

    def __init__(self, t, segs=None, src=None):
        self.t = t
        self.segs = segs  # None, or list of ('lit', str) | ('atom', term, Chars)
        self.src = src    # for digests: (hashed text as SymStr, slice start, slice stop)

    # ---- construction
    @staticmethod
    def atom(term, chars):
        return SymStr(term, [('atom', term, chars)])

    @staticmethod
    def from_segs(segs):
        m = []
        for sg in segs:
            if sg[0] == 'lit':
                if sg[1] == '':
                    continue
                if m and m[-1][0] == 'lit':
                    m[-1] = ('lit', m[-1][1] + sg[1])
                    continue
            m.append(sg)
        if not m:
            return ''
        if all(x[0] == 'lit' for x in m):
            return m[0][1]
        parts = [z3.StringVal(x[1]) if x[0] == 'lit' else x[1] for x in m]
        return SymStr(parts[0] if len(parts) == 1 else z3.Concat(*parts), m)

    def _new(self, t, segs=None):
        return SymStr(t, segs)

    # ---- comparisons
    def __eq__(self, o):
        if isinstance(o, SymStr):
            r = _seg_eq(self, o)
            if r is not None:
                return r
            return mkbool(self.t == o.t)
        if isinstance(o, str):
            r = _seg_eq(self, o)
            if r is not None:
                return r
            return mkbool(self.t == z3.StringVal(o))
        return False

    def __ne__(self, o):
        return mkbool(z3.Not(to_bool_term(self.__eq__(o))))

    __hash__ = Sym.__hash__

    def _s(self, o):
        if isinstance(o, SymStr):
            return o.t
        if isinstance(o, str):
            return z3.StringVal(o)
        raise SxUnsupported(f'string operation with {type(o).__name__}')

    def __lt__(self, o):
        return mkbool(self.t < self._s(o))

    def __gt__(self, o):
        return mkbool(self._s(o) < self.t)

    def __le__(self, o):
        return mkbool(self.t <= self._s(o))

    def __ge__(self, o):
        return mkbool(self._s(o) <= self.t)

    def __add__(self, o):
        return sx_add(self, o)

    def __radd__(self, o):
        return sx_add(o, self)

    def __mod__(self, o):
        raise SxUnsupported('% formatting of symbolic string')

    def __bool__(self):
        if self.segs is not None and any(sg[0] == 'lit' and sg[1] for sg in self.segs):
            return True
        return cur().decide(z3.Length(self.t) > 0)

    def __len__(self):
        raise SxUnsupported('len() of symbolic string outside instrumented code')

    def __contains__(self, o):
        return bool(sx_contains_str(self, o))

    # ---- str methods
    def startswith(self, p, *a):
        if a:
            raise SxUnsupported('startswith with offsets')
        if isinstance(p, tuple):
            r = False
            for q in p:
                r = mkbool(z3.Or(to_bool_term(r), to_bool_term(self.startswith(q))))
            return r
        r = _seg_prefix(self, p)
        if r is not None:
            return r
        return mkbool(z3.PrefixOf(self._s(p), self.t))

    def endswith(self, p, *a):
        if a:
            raise SxUnsupported('endswith with offsets')
        if isinstance(p, tuple):
            r = False
            for q in p:
                r = mkbool(z3.Or(to_bool_term(r), to_bool_term(self.endswith(q))))
            return r
        r = _seg_suffix(self, p)
        if r is not None:
            return r
        return mkbool(z3.SuffixOf(self._s(p), self.t))

    def __getitem__(self, k):
        if isinstance(k, slice) and k.step is None:
            a, b = k.start, k.stop
            n = z3.Length(self.t)
            if (a is None or (type(a) is int and a >= 0)) and (b is None or (type(b) is int and b >= 0)):
                a = a or 0
                if b is None:
                    return self._sliced(z3.SubString(self.t, a, n), a, None)
                if b <= a:
                    return ''
                return self._sliced(z3.SubString(self.t, a, b - a), a, b)

            def norm(v, default):
                if v is None:
                    return default
                v = lift(v)
                return z3.If(v < 0, z3.If(n + v < 0, z3.IntVal(0), n + v), z3.If(v > n, n, v))
            a = norm(a, z3.IntVal(0))
            b = norm(b, n)
            return SymStr(z3.simplify(z3.SubString(self.t, a, z3.If(b - a < 0, z3.IntVal(0), b - a))))
        raise SxUnsupported('indexing a symbolic string')

    def _sliced(self, term, a, b):
        """s[a:b] with concrete non-negative bounds; keeps structure where that is exact."""
        segs = self.segs
        if segs is not None:
            if len(segs) == 1 and segs[0][0] == 'atom':
                t = z3.simplify(term)
                src = None
                if self.src is not None and self.src[1] is None:
                    src = (self.src[0], a, b)
                seg = ('atom', t, segs[0][2], src) if src is not None else ('atom', t, segs[0][2])
                return SymStr(t, [seg], src)     # a slice of an atom keeps its character class
            # literal prefix long enough to answer syntactically
            lit = 0
            i = 0
            while i < len(segs) and segs[i][0] == 'lit':
                lit += len(segs[i][1])
                i += 1
            head = ''.join(sg[1] for sg in segs[:i])
            if b is not None and b <= lit:
                return head[a:b]
            if b is None and a <= lit:
                return SymStr.from_segs([('lit', head[a:])] + list(segs[i:]))
        return SymStr(z3.simplify(term))

    def syntactic(self, chars):
        """True if no atom can contain any character of `chars` (so they occur only in literal runs)."""
        return self.segs is not None and all(sg[0] == 'lit' or sg[2].excludes_all(chars) for sg in self.segs)

    def split(self, sep=None, maxsplit=-1):
        if sep is None or isinstance(sep, Sym):
            raise SxUnsupported('split without a concrete separator')
        if maxsplit != -1:
            raise SxUnsupported('split with maxsplit on symbolic string')
        if self.syntactic(sep):
            pieces = [[]]
            for sg in self.segs:
                if sg[0] == 'atom':
                    pieces[-1].append(sg)
                else:
                    parts = sg[1].split(sep)
                    pieces[-1].append(('lit', parts[0]))
                    for p in parts[1:]:
                        pieces.append([('lit', p)])
            return [SymStr.from_segs(p) for p in pieces]
        # bounded unrolling with an unwinding assertion
        c = cur()
        out = []
        rest = self
        sepv = z3.StringVal(sep)
        for _ in range(c.split_bound):
            idx = z3.IndexOf(rest.t, sepv, 0)
            if c.decide(idx < 0):
                out.append(rest)
                return out
            out.append(SymStr(z3.simplify(z3.SubString(rest.t, 0, idx))))
            rest = SymStr(z3.simplify(z3.SubString(rest.t, idx + len(sep), z3.Length(rest.t))))
        if c.feasible([z3.IndexOf(rest.t, sepv, 0) >= 0]) != 'unsat':
            raise SxUnsupported(f'split unwinding bound {c.split_bound} exceeded')
        out.append(rest)
        return out

    def rpartition(self, sep):
        if isinstance(sep, Sym) or not self.syntactic(sep):
            raise SxUnsupported('rpartition on unstructured symbolic string')
        parts = self.split(sep)
        if len(parts) == 1:
            return ('', '', self)
        return (sx_join(sep, parts[:-1]), sep, parts[-1])

    def partition(self, sep):
        if isinstance(sep, Sym) or not self.syntactic(sep):
            raise SxUnsupported('partition on unstructured symbolic string')
        parts = self.split(sep)
        if len(parts) == 1:
            return (self, '', '')
        return (parts[0], sep, sx_join(sep, parts[1:]))

    def rsplit(self, *a, **k):
        raise SxUnsupported('rsplit on symbolic string')

    def strip(self, chars=None):
        raise SxUnsupported('strip on symbolic string')

    lstrip = rstrip = strip

    def replace(self, old, new, count=-1):
        if count != -1 or isinstance(old, Sym) or isinstance(new, Sym):
            raise SxUnsupported('replace with symbolic arguments')
        if self.syntactic(old):
            return SymStr.from_segs([('lit', sg[1].replace(old, new)) if sg[0] == 'lit' else sg for sg in self.segs])
        raise SxUnsupported('replace on unstructured symbolic string')

    def encode(self, *a, **k):
        return SymBytes(self)

    def lower(self):
        raise SxUnsupported('lower() on symbolic string')

    upper = lower

    def format(self, *a, **k):
        raise SxUnsupported('format() on symbolic string')

    def join(self, it):
        return sx_join(self, it)

    def find(self, *a):
        raise SxUnsupported('find on symbolic string')

    index = count = find


class SymAttrStr(SymStr):
    """SymStr that may carry instance attributes (proxies of str subclasses such as ReprStr)."""
    __slots__ = ('__dict__',)

    def _new(self, t, segs=None):
        return SymStr(t, segs)


class SymBytes:
    """Result of sym_str.encode(): only meaningful as the argument of the modelled sha256."""

    def __init__(self, s):
        self.s = s

    def __bytes__(self):
        raise SxUnsupported('bytes of a symbolic string')


def segs_of(x):
    if isinstance(x, Sym):
        if isinstance(x, SymStr) and x.segs is not None:
            return x.segs
        if isinstance(x, SymStr):
            return [('atom', x.t, Chars(''))]
        return None
    if isinstance(x, str):
        return [('lit', str.__str__(x))]
    return None


def sx_add(a, b):
    if isinstance(a, Sym) or isinstance(b, Sym):
        sa, sb = segs_of(a), segs_of(b)
        if sa is None or sb is None:
            raise SxUnsupported(f'concatenation of {type(a).__name__} and {type(b).__name__}')
        return SymStr.from_segs(list(sa) + list(sb))
    return a + b


def sx_join(sep, items):
    items = list(items)
    if not has_sym(items, 1) and not isinstance(sep, Sym):
        return sep.join(items)
    if not items:
        return ''
    acc = items[0]
    if not isinstance(acc, (str, SymStr)):
        raise TypeError(f'sequence item 0: expected str instance, {type(acc).__name__} found')
    for it in items[1:]:
        if not isinstance(it, (str, SymStr)):
            raise TypeError(f'sequence item: expected str instance, {type(it).__name__} found')
        acc = sx_add(sx_add(acc, sep), it)
    return acc


def sx_contains_str(container, item):
    """`item in container` for strings, at least one symbolic."""
    if isinstance(container, SymStr) and isinstance(item, str) and not isinstance(item, Sym):
        if item == '':
            return True
        if container.syntactic(item):
            return any(sg[0] == 'lit' and item in sg[1] for sg in container.segs)
        if container.segs is not None and any(sg[0] == 'lit' and item in sg[1] for sg in container.segs):
            return True
        r = _contains_anchored(container.segs, item)
        if r is not None:
            return r
    if isinstance(container, str) and not isinstance(container, Sym):
        return mkbool(z3.Contains(z3.StringVal(container), lift(item)))
    return mkbool(z3.Contains(container.t, lift(item)))


def _contains_anchored(segs, needle):
    """Exact `needle in <structured string>` when the needle has a character c that no atom may contain: every
    occurrence must then put c on a literal position; each such alignment is checked against the neighbouring literal
    text.  Returns True / False, or None when an alignment would reach into an atom (left to the solver)."""
    if segs is None:
        return None
    anchors = [j for j, ch in enumerate(needle) if all(sg[0] == 'lit' or sg[2].excludes_all(ch) for sg in segs)]
    if not anchors:
        return None
    j = anchors[0]
    c = needle[j]
    # flatten: list of (kind, payload) per position for literals, one entry per atom
    flat = []
    for sg in segs:
        if sg[0] == 'lit':
            flat += [('c', ch) for ch in sg[1]]
        else:
            flat.append(('a', sg))
    undecided = False
    for p, (k, ch) in enumerate(flat):
        if k != 'c' or ch != c:
            continue
        ok = True
        # left part needle[:j] must sit on flat[p-j:p], right part needle[j+1:] on flat[p+1:...]
        for off in range(-j, len(needle) - j):
            q = p + off
            if q < 0 or q >= len(flat):
                ok = False
                break
            kk, cc = flat[q]
            if kk == 'a':
                if cc[2].excludes_all(needle[j + off]):
                    ok = False
                else:
                    ok = None       # would need part of the needle inside an atom
                break
            if cc != needle[j + off]:
                ok = False
                break
        if ok is True:
            return True
        if ok is None:
            undecided = True
    return None if undecided else False


# ---- syntactic comparisons on aligned segment lists (saves solver calls, never changes the answer)
def _norm_segs(x):
    s = segs_of(x)
    if s is None:
        return None
    return s


def _seg_eq(a, b):
    """Decide a == b syntactically when possible: returns True/False/SymBool or None (fall back to the solver)."""
    sa, sb = _norm_segs(a), _norm_segs(b)
    if sa is None or sb is None:
        return None
    if len(sa) == 1 and len(sb) == 1 and sa[0][0] == 'atom' and sb[0][0] == 'atom' and len(sa[0]) == 4 \
            and len(sb[0]) == 4 and sa[0][3][1:] == sb[0][3][1:] and sa[0][3][1] == 0 \
            and sa[0][3][2] is not None and sa[0][3][2] >= 32:
        # two digests H(text)[a:b] with the same slice: equal iff the hashed texts are equal (congruence one way,
        # the collision-freedom assumption on H the other way); the texts are structured, the digests are not
        ta, tb = sa[0][3][0], sb[0][3][0]
        return (ta == tb) if isinstance(ta, Sym) else ((tb == ta) if isinstance(tb, Sym) else ta == tb)
    if len(sa) == 1 and len(sb) == 1 and sa[0][0] == 'atom' and sb[0][0] == 'atom':
        ta, tb = sa[0][1], sb[0][1]
        if z3.is_app(ta) and z3.is_app(tb) and ta.decl().name() == 'I2S' and tb.decl().name() == 'I2S':
            # decimal rendering is injective: str(i) == str(j) iff i == j
            return mkbool(ta.arg(0) == tb.arg(0))
    if len(sa) == len(sb) and all(x[0] == y[0] and (x[1] == y[1] if x[0] == 'lit' else x[1].eq(y[1])) for x, y in
                                  zip(sa, sb)):
        return True
    # split both on a single character that can only occur in literal runs of both sides: for such a character
    # splitting is a bijection between strings and lists of separator-free pieces, so equality is piece-wise
    cands = []
    for sg in list(sa) + list(sb):
        if sg[0] == 'lit':
            for ch in sg[1]:
                if ch not in cands:
                    cands.append(ch)
    pref = [c for c in "':/#$,= " if c in cands] + [c for c in cands if c not in "':/#$,= "]
    for sep in pref:
        if not (_syn(sa, sep) and _syn(sb, sep)):
            continue
        pa, pb = _split_segs(sa, sep), _split_segs(sb, sep)
        if len(pa) != len(pb):
            return False
        conds = []
        for x, y in zip(pa, pb):
            x, y = SymStr.from_segs(x), SymStr.from_segs(y)
            if isinstance(x, Sym):
                r = (x == y)
            elif isinstance(y, Sym):
                r = (y == x)
            else:
                r = (x == y)
            if r is False:
                return False
            if r is True:
                continue
            conds.append(to_bool_term(r))
        if not conds:
            return True
        return mkbool(z3.And(conds))
    return None


def _syn(segs, chars):
    return all(sg[0] == 'lit' or sg[2].excludes_all(chars) for sg in segs)


def _has_lit(segs, sep):
    return any(sg[0] == 'lit' and sep in sg[1] for sg in segs)


def _split_segs(segs, sep):
    pieces = [[]]
    for sg in segs:
        if sg[0] == 'atom':
            pieces[-1].append(sg)
        else:
            parts = sg[1].split(sep)
            pieces[-1].append(('lit', parts[0]))
            for p in parts[1:]:
                pieces.append([('lit', p)])
    return pieces


def _piece(segs):
    return SymStr.from_segs(segs)


def _seg_affix(s, p, suffix):
    """s.endswith(p) / s.startswith(p) decided component-wise when ':' can only occur in literal runs of both."""
    sa, sb = _norm_segs(s), _norm_segs(p)
    if sa is None or sb is None or not (_syn(sa, ':') and _syn(sb, ':')):
        return None
    if not (_has_lit(sa, ':') or _has_lit(sb, ':')):
        return None                      # single components: a genuine prefix/suffix question for the solver
    pa, pb = _split_segs(sa, ':'), _split_segs(sb, ':')
    if len(pb) > len(pa):
        return False
    if suffix:
        pa, pb = pa[::-1], pb[::-1]
    # pb[:-1] must equal the aligned components of pa exactly; pb[-1] is a prefix/suffix of the aligned component
    conds = []
    for x, y in zip(pa[:len(pb) - 1], pb[:-1]):
        r = (_piece(x) == _piece(y)) if isinstance(_piece(x), Sym) else (_piece(y) == _piece(x))
        if r is False:
            return False
        if r is not True:
            conds.append(to_bool_term(r))
    last_s, last_p = _piece(pa[len(pb) - 1]), _piece(pb[-1])
    if isinstance(last_p, str) and last_p == '':
        pass
    elif isinstance(last_s, Sym) or isinstance(last_p, Sym):
        ts, tp = lift(last_s), lift(last_p)
        conds.append(z3.SuffixOf(tp, ts) if suffix else z3.PrefixOf(tp, ts))
    else:
        if not (last_s.endswith(last_p) if suffix else last_s.startswith(last_p)):
            return False
    if not conds:
        return True
    return mkbool(z3.And(conds))


def _seg_prefix(s, p):
    return _seg_affix(s, p, False)


def _seg_suffix(s, p):
    return _seg_affix(s, p, True)
