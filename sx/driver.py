"""Check driver: runs a check module's cases on a process pool, replays counterexamples against the plain library,
applies known_findings.json, writes the evidence file and sets the exit code.

exit 0  every path explored, every deciding query unsat (or only listed known findings), witnesses reached
exit 1  a counterexample that REPRODUCED on the uninstrumented library and is not listed: VIOLATION line
exit 2  inconclusive / harness error: unknown from both solvers, budget exhausted, unsupported construct,
        non-reproducing counterexample, concolic mismatch, vacuous harness.  Never success, never a violation.
"""
import argparse
import hashlib
import importlib
import json
import multiprocessing as mp
import os
import subprocess
import sys
import time
import traceback

ROOT = os.path.dirname(os.path.dirname(os.path.abspath(__file__)))
OUT = os.environ.get('SX_OUT_DIR', ROOT)       # evidence/ and replays/ go here (scratch runs against a worktree)
REPO = os.environ.get('SX_REPO', '/repo')
PLAIN_PY = '/venv/bin/python'


def _worker(args):
    modname, case, tier, seed = args
    t0 = time.time()
    try:
        from sx import smt, instr
        mod = importlib.import_module(modname)
        smt.STATS.__init__()
        res = mod.run_case(case, tier)
        res['case'] = repr(case)
        res['stats'] = smt.STATS.as_dict()
        res['entered'] = instr.entered()
        res['wall_s'] = round(time.time() - t0, 2)
        return res
    except BaseException as e:  # noqa: a crash of the harness is inconclusive, never success
        return {'case': repr(case), 'error': f'{type(e).__name__}: {e}', 'trace': traceback.format_exc()[-1500:],
                'wall_s': round(time.time() - t0, 2)}


def result_from_ctx(ctx, extra=None):
    """Standard case result built from an explore.Ctx."""
    r = {
        'paths': ctx.paths,
        'nontrivial_paths': ctx.nontrivial_paths,
        'exhausted': bool(getattr(ctx, 'exhausted', False)),
        'checks': ctx.checks,
        'violations': [v.as_dict() for v in ctx.violations],
        'known': [{'finding': k[0], 'label': k[1], 'model': k[2], 'info': k[3]} for k in ctx.known],
        'unknown': [{'label': u[0], 'detail': {k: str(v) for k, v in u[1].items()}} for u in ctx.unknowns],
        'unsupported': ctx.unsupported[:10],
        'reached': dict(ctx.reached),
        'samples': ctx.samples[:3],
        'concolic': ctx.concolic,
        'concolic_mismatch': ctx.concolic_mismatch[:5],
    }
    if extra:
        r.update(extra)
    return r


def merge_results(rs):
    out = None
    for r in rs:
        if out is None:
            out = dict(r)
            continue
        for k in ('paths', 'nontrivial_paths', 'checks', 'concolic'):
            out[k] = out.get(k, 0) + r.get(k, 0)
        out['exhausted'] = out.get('exhausted', True) and r.get('exhausted', True)
        for k in ('violations', 'known', 'unknown', 'unsupported', 'concolic_mismatch', 'samples'):
            out[k] = out.get(k, []) + r.get(k, [])
        for k, v in r.get('reached', {}).items():
            out.setdefault('reached', {})[k] = out.get('reached', {}).get(k, 0) + v
    return out or {}


def load_known(prop):
    p = os.path.join(ROOT, 'known_findings.json')
    if not os.path.exists(p):
        return []
    data = json.load(open(p))
    return [f for f in data.get('findings', []) if f.get('property') == prop and f.get('status', 'open') == 'open']


def run_replay(mod, spec, keep_path=None):
    """Run the replay of one counterexample against the plain library. Returns (reproduced, output)."""
    env = dict(os.environ)
    if (hasattr(mod, 'make_harness') and not hasattr(mod, 'replay_script')) or spec.get('module_override'):
        # generic replay: the same harness, concrete inputs, plain library (no import hook), real file system
        env['PYTHONPATH'] = os.path.join(REPO, 'src') + os.pathsep + ROOT
        env['PYTHONDONTWRITEBYTECODE'] = '1'
        spec = dict(spec, module=spec.get('module_override') or mod.__name__)
        try:
            p = subprocess.run([os.path.join(ROOT, '.venv', 'bin', 'python'), '-m', 'sx.replay', json.dumps(spec, default=str)],
                               env=env, capture_output=True, text=True, timeout=600, cwd=ROOT)
        except subprocess.TimeoutExpired:
            return None, 'replay timed out'
        out = (p.stdout + p.stderr)[-3000:]
        return (True if p.returncode == 3 else False if p.returncode == 0 else None), out
    script = mod.replay_script(spec)
    env['PYTHONPATH'] = os.path.join(REPO, 'src') + os.pathsep + os.path.join(ROOT)
    env['PYTHONDONTWRITEBYTECODE'] = '1'
    env.pop('SX_HOOK', None)
    try:
        p = subprocess.run([PLAIN_PY, '-c', script, json.dumps(spec, default=str)], env=env, capture_output=True,
                           text=True, timeout=300, cwd=os.environ.get('TMPDIR', '/tmp'))
    except subprocess.TimeoutExpired:
        return None, 'replay timed out'
    out = (p.stdout + p.stderr)[-3000:]
    if p.returncode == 3:          # 3 = the violation reproduced (1 would be any uncaught Python exception)
        return True, out
    if p.returncode == 0:
        return False, out
    return None, out


def main(modname):
    ap = argparse.ArgumentParser()
    ap.add_argument('--tier', default=os.environ.get('VERIF_TIER', 'quick'), choices=['quick', 'thorough'])
    ap.add_argument('--replay', default=None)
    ap.add_argument('--jobs', type=int, default=int(os.environ.get('VERIF_JOBS', '16')))
    ap.add_argument('--only', default=None, help='substring filter on cases (debugging)')
    ap.add_argument('--serial', action='store_true')
    a = ap.parse_args(sys.argv[2:])
    seed = int(os.environ.get('VERIF_SEED', '0') or 0)
    sys.path.insert(0, ROOT)
    mod = importlib.import_module(modname)
    prop = mod.PROPERTY

    if a.replay:
        spec = json.load(open(a.replay))['spec']
        ok, out = run_replay(mod, spec)
        print(out)
        if ok:
            print(f'VIOLATION property={prop} replay={a.replay}')
            sys.exit(1)
        sys.exit(0 if ok is False else 2)

    t0 = time.time()
    cases = mod.cases(a.tier)
    if a.only:
        cases = [c for c in cases if a.only in str(c)]
    import random
    random.Random(seed).shuffle(cases)     # the seed only orders the search
    jobs = [(modname, c, a.tier, seed) for c in cases]
    if a.serial or a.jobs <= 1 or len(jobs) <= 1:
        results = [_worker(j) for j in jobs]
    else:
        # results are collected as they arrive; after the wall-clock limit of the tier the pool is stopped: cases not
        # finished count as "ran out of budget" (inconclusive) -- unless a counterexample was already found
        limit = float(os.environ.get('VERIF_WALL_LIMIT', '840' if a.tier == 'quick' else '14000'))
        ctx = mp.get_context('fork')
        results = []
        with ctx.Pool(min(a.jobs, len(jobs))) as pool:
            it = pool.imap_unordered(_worker, jobs, chunksize=1)
            for _ in range(len(jobs)):
                left = limit - (time.time() - t0)
                try:
                    results.append(it.next(timeout=max(left, 1)))
                except mp.TimeoutError:
                    pool.terminate()
                    done = {r.get('case') for r in results}
                    for j in jobs:
                        if repr(j[1]) not in done:
                            results.append({'case': repr(j[1]), 'paths': 0, 'exhausted': False, 'violations': [],
                                            'known': [], 'unknown': [], 'unsupported': [], 'reached': {}})
                    break

    agg = {'paths': 0, 'nontrivial_paths': 0, 'checks': 0, 'concolic': 0}
    stats = {}
    violations, known_hits, unknown, unsupported, errors, mismatches, samples = [], [], [], [], [], [], []
    reached = {}
    entered = set()
    not_exhausted = []
    for r in results:
        if 'error' in r:
            errors.append(r)
            continue
        for k in agg:
            agg[k] += r.get(k, 0)
        for k, v in r.get('stats', {}).items():
            stats[k] = round(stats.get(k, 0) + v, 2)
        violations += [dict(v, case=r['case']) for v in r.get('violations', [])]
        known_hits += [dict(v, case=r['case']) for v in r.get('known', [])]
        unknown += [dict(u, case=r['case']) for u in r.get('unknown', [])]
        unsupported += [f"{u} [{r['case']}]" for u in r.get('unsupported', [])]
        mismatches += r.get('concolic_mismatch', [])
        for k, v in r.get('reached', {}).items():
            reached[k] = reached.get(k, 0) + v
        entered.update(r.get('entered', []))
        entered.update(r.get('entered_extra', []))
        if not r.get('exhausted', True):
            not_exhausted.append(r['case'])
        if len(samples) < 5:
            samples += [dict(s, case=r['case']) for s in r.get('samples', [])[:1]]

    problems = []
    if errors:
        problems.append(f'{len(errors)} case(s) crashed: ' + '; '.join(e['error'][:200] for e in errors[:3]))
    if unknown:
        problems.append(f'{len(unknown)} deciding quer(ies) unknown: ' + ', '.join(f"{u['label']} [{str(u.get('case'))[:80]}]" for u in unknown[:5]))
    if unsupported:
        problems.append(f'{len(unsupported)} path(s) hit an unsupported construct: ' + '; '.join(unsupported[:3]))
    if not_exhausted:
        problems.append(f'{len(not_exhausted)} case(s) ran out of path/time budget: ' + '; '.join(not_exhausted[:3]))
    if mismatches:
        problems.append(f'{len(mismatches)} concolic mismatch(es): ' + json.dumps(mismatches[:2], default=str)[:500])
    need = getattr(mod, 'REACH', [])
    missing = [w for w in need if not reached.get(w)]
    if missing:
        problems.append('vacuous: assertion label(s) never reached: ' + ', '.join(missing))

    # ---- replay counterexamples on the plain library
    listed = load_known(prop)
    new_violations, known_lines, spurious = [], [], []
    seen_specs = set()
    os.makedirs(os.path.join(OUT, 'replays', prop), exist_ok=True)

    def handle(v, declared_known):
        if hasattr(mod, 'replay_spec'):
            spec = mod.replay_spec(v)
        else:
            spec = {'case': v.get('case'), 'label': v['label'].split('/known:')[0], 'inputs': v.get('model'),
                    'info': v.get('info'), 'tier': a.tier}
        key = hashlib.sha1(json.dumps(spec, sort_keys=True, default=str).encode()).hexdigest()[:12]
        if key in seen_specs:
            return
        seen_specs.add(key)
        ok, out = run_replay(mod, spec)
        path = os.path.join(OUT, 'replays', prop, key + '.json')
        json.dump({'property': prop, 'label': v['label'], 'spec': spec, 'case': v.get('case'),
                   'replay_output': out[-1500:]}, open(path, 'w'), indent=1, default=str)
        if ok is not True:
            spurious.append((v['label'], key, out[-300:]))
            return
        fid = mod.match_finding(spec, v, listed) if hasattr(mod, 'match_finding') else None
        if fid is None and declared_known is not None and any(f['id'] == declared_known for f in listed):
            fid = declared_known
        if fid is not None:
            known_lines.append((fid, next(f['what'] for f in listed if f['id'] == fid), path))
        else:
            new_violations.append((v['label'], path, out[-400:]))

    # bound the number of replays: one per (label, finding) class plus up to 12 distinct new ones
    per_label = {}
    for v in violations:
        per_label.setdefault(v['label'], []).append(v)
    for lab, vs in per_label.items():
        for v in vs[:3]:
            handle(v, None)
    per_known = {}
    for v in known_hits:
        per_known.setdefault((v['finding'], v['label']), []).append(v)
    for (fid, lab), vs in per_known.items():
        handle(vs[0], fid)
    if spurious:
        problems.append(f'{len(spurious)} counterexample(s) did not reproduce on the plain library: '
                        + '; '.join(f'{s[0]} ({s[1]})' for s in spurious[:3]))

    wall = time.time() - t0
    # ---- evidence
    ev = {
        'property_id': prop,
        'tier': a.tier,
        'seed': seed,
        'level': 'other',
        'coverage': {
            'explanation': getattr(mod, 'EXPLANATION', ''),
            'functions_encoded': sorted(q for q in entered if any(q.startswith(p) for p in getattr(mod, 'FUNCTIONS', ['taskchain']))),
            'bounds': mod.bounds(a.tier) if hasattr(mod, 'bounds') else {},
            'outside_the_claim': getattr(mod, 'OUTSIDE', []),
            'cases': len(cases),
            'evaluations': agg['paths'],
            'distinct_nontrivial': agg['nontrivial_paths'],
            'rule': 'one evaluation = one explored path of the real code under a distinct path condition; '
                    'non-trivial = the path took at least one solver-decided branch on a symbolic variable',
            'obligations': stats.get('deciding_queries', 0),
            'discharged': stats.get('unsat', 0),
            'queries': stats,
            'reachability_witnesses': reached,
            'concolic_validations': agg['concolic'],
            'known_findings_confirmed': sorted({k[0] for k in known_lines}),
            'inconclusive': problems,
            'samples': samples[:5] or [{'note': 'no sample recorded'}],
            'exhaustive': not problems and not not_exhausted,
        },
        'assumptions': getattr(mod, 'ASSUMPTIONS', []),
        'wall_s': round(wall, 2),
        'violations': len(new_violations),
    }
    os.makedirs(os.path.join(OUT, 'evidence'), exist_ok=True)
    json.dump(ev, open(os.path.join(OUT, 'evidence', f'{prop}.json'), 'w'), indent=1, default=str)

    for fid, what, path in sorted(set(known_lines)):
        print(f'KNOWN-FINDING: property={prop} {what} [{fid}] replay={path}')
    slow = sorted(((r.get('wall_s', 0), r.get('case')) for r in results), reverse=True)[:3]
    if os.environ.get('VERIF_DEBUG'):
        print('slowest cases:', slow)
    print(f'{prop} tier={a.tier} cases={len(cases)} paths={agg["paths"]} checks={agg["checks"]} '
          f'queries={stats} wall={wall:.1f}s')
    if new_violations:
        for lab, path, out in new_violations:
            print(f'  violated: {lab}\n    ' + out.strip().replace('\n', '\n    ')[-400:])
            print(f'VIOLATION property={prop} replay={path}')
        sys.exit(1)
    if problems:
        for p in problems:
            print('INCONCLUSIVE:', p)
        for e in errors[:2]:
            print(e.get('trace', ''))
        sys.exit(2)
    print('OK')
    sys.exit(0)


if __name__ == '__main__':
    main(sys.argv[1])
