"""Replay of a crash on the REAL file system: the faulted request runs in a child process in which every
state-changing file operation is counted by kind and path; at the recorded operation the child writes the torn prefix
(for a flush) and dies with os._exit, exactly as a killed process would."""
import json
import os
import subprocess
import sys

CHILD = r'''
import sys, json, os, io, builtins, pathlib, shutil, warnings, ast
warnings.filterwarnings('ignore')
root, module, case, crash = sys.argv[1], sys.argv[2], sys.argv[3], json.loads(sys.argv[4])
phase = int(sys.argv[5]) if len(sys.argv) > 5 else 1
data_root = os.path.join(root, 'data')
seen = {}

def rel(p):
    p = os.path.abspath(os.fspath(p))
    return os.path.relpath(p, data_root)

def tick(op, p, flush_cb=None):
    r = rel(p)
    if r.startswith('..'):
        return
    n = seen[(op, r)] = seen.get((op, r), 0) + 1
    if crash and crash['op'] == op and crash['path'] == r and crash['nth'] == n:
        if flush_cb is not None:
            flush_cb(crash.get('torn', 0))
        os._exit(70)

real_open = io.open

class W:
    """write-mode file whose data reaches the disk only at flush/close, tick by tick"""
    def __init__(self, path, mode, kw):
        self.path, self.mode = path, mode
        tick('open-w', path)
        self.f = real_open(path, mode, **kw)
        self.buf = []
        self.name = os.fspath(path)
        self.closed = False
    def write(self, s):
        self.buf.append(s); return len(s)
    def _emit(self, torn=None):
        if not self.buf: return
        whole = self.buf[0][:0].join(self.buf); self.buf = []
        if torn is not None:
            cut = 0 if torn == 0 else (len(whole) // 2 if torn == 1 else len(whole) - 1)
            whole = whole[:max(cut, 0)]
        self.f.write(whole); self.f.flush(); os.fsync(self.f.fileno())
    def flush(self):
        if self.buf:
            tick('flush', self.path, lambda t: self._emit(t))
            self._emit()
    def close(self):
        if self.closed: return
        self.flush(); self.closed = True; self.f.close()
    def __enter__(self): return self
    def __exit__(self, *a): self.close(); return False
    def __del__(self):
        try: self.close()
        except Exception: pass
    def fileno(self): return self.f.fileno()
    def seek(self, *a): return self.f.seek(*a)
    def tell(self): return sum(len(x) for x in self.buf)
    def writable(self): return True
    def readable(self): return False
    def seekable(self): return False
    def writelines(self, ls):
        for l in ls: self.write(l)

def patched_open(file, mode='r', *a, **kw):
    if isinstance(file, (str, os.PathLike)) and any(c in mode for c in 'wa') and not rel(file).startswith('..'):
        kw2 = {k: v for k, v in kw.items() if k in ('encoding', 'newline', 'errors')}
        return W(file, mode, kw2)
    return real_open(file, mode, *a, **kw)

io.open = patched_open
builtins.open = patched_open
pathlib.io.open = patched_open if hasattr(pathlib, 'io') else None
_po = pathlib.Path.open
def path_open(self, mode='r', buffering=-1, encoding=None, errors=None, newline=None):
    return patched_open(self, mode, encoding=encoding, errors=errors, newline=newline)
pathlib.Path.open = path_open

_mkdir = pathlib.Path.mkdir
def mkdir(self, mode=0o777, parents=False, exist_ok=False):
    if self.exists():
        return _mkdir(self, mode, parents, exist_ok)
    if parents and not self.parent.exists():
        mkdir(self.parent, mode, True, True)
    tick('mkdir', self)
    return _mkdir(self, mode, False, exist_ok)
pathlib.Path.mkdir = mkdir
_unlink = pathlib.Path.unlink
def unlink(self, *a, **k):
    tick('unlink', self); return _unlink(self, *a, **k)
pathlib.Path.unlink = unlink
_move = shutil.move
def move(a, b, *x, **k):
    tick('rename', a); return os.rename(a, b) if not os.path.isdir(b) else _move(a, b)
shutil.move = move
def rmtree(p, ignore_errors=False, **k):
    p = os.fspath(p)
    if not os.path.isdir(p):
        if ignore_errors: return
        raise FileNotFoundError(p)
    def rm(d):
        for name in sorted(os.listdir(d)):
            q = os.path.join(d, name)
            if os.path.isdir(q) and not os.path.islink(q):
                rm(q); tick('rmdir', q); os.rmdir(q)
            else:
                tick('rm', q); os.remove(q)
    rm(p); tick('rmdir', p); os.rmdir(p)
shutil.rmtree = rmtree

import importlib
from sx import replay
replay.MODE['replay'] = True
replay.MODE['tmp'] = root
mod = importlib.import_module(module)
mod.crash_child(root, ast.literal_eval(case), phase)
os._exit(0)
'''


def run_crashing(root, module, case_repr, crash, phase=1):
    """Run the faulted request of `module` in a child that dies at `crash`; returns the child's exit status."""
    env = dict(os.environ)
    p = subprocess.run([sys.executable, '-c', CHILD, root, module, case_repr, json.dumps(crash), str(phase)], env=env,
                       capture_output=True, text=True, timeout=300)
    if p.returncode not in (0, 70):
        print('crash child failed:', p.returncode, (p.stdout + p.stderr)[-1500:])
    return p.returncode
