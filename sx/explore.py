"""Restart-based depth-first path exploration over symbolic decisions, with SMT-decided assertions."""
import time
import traceback
import z3
from . import smt
from .sym import (Sym, SymStr, SymInt, SymBool, SymVal, Chars, SxUnsupported, PathAbort, lift, mkbool,
                  to_bool_term)

IDENT_RE = z3.Concat(z3.Union(z3.Range('a', 'z'), z3.Re('_')),
                     z3.Star(z3.Union(z3.Range('a', 'z'), z3.Range('0', '9'), z3.Re('_'))))
IDENT_CHARS = Chars('abcdefghijklmnopqrstuvwxyz0123456789_', only=True)


class StopExploration(BaseException):
    """Enough counterexamples were collected in this case."""


class Violation:
    def __init__(self, label, model, info, pc_size):
        self.label = label
        self.model = {k: v for k, v in (model or {}).items() if k != '__z3model__'}
        m = (model or {}).get('__z3model__')
        self.info = _concretize(info, m) if m is not None else _strip(info)
        self.concrete = m is not None
        self.pc_size = pc_size

    def as_dict(self):
        return {'label': self.label, 'model': self.model, 'info': self.info}


class Ctx:
    cur = None

    def __init__(self, decide_timeout_ms=20000, feas_timeout_ms=5000, split_bound=4):
        self.decide_timeout_ms = decide_timeout_ms
        self.feas_timeout_ms = feas_timeout_ms
        self.split_bound = split_bound
        self.paths = 0
        self.nontrivial_paths = 0
        self.violations = []
        self.known = []          # (finding id, label, model, info)
        self.unknowns = []       # labels of deciding queries that stayed unknown
        self.unsupported = []    # SxUnsupported messages (inconclusive)
        self.reached = {}        # label -> count
        self.checks = 0
        self.samples = []
        self.concolic = 0
        self.concolic_mismatch = []
        self.concrete = None     # dict name -> python value while re-running a path concretely
        self.assumptions_used = set()
        self.max_violations = 3
        self.stopped = False

    # ---- per path
    def new_path(self, prefix):
        self.pc = []
        self.decisions = []
        self.forced = list(prefix)
        self.vars = {}
        self.var_meta = {}
        self.fresh = 0
        self.obs = {}
        self.path_checks = []
        self.model = None
        self.decided = {}
        self.path_kinds = []

    # ---- symbolic inputs (concrete values instead when re-running concolically)
    def _declare(self, name, sort, kind, extra=None):
        if name not in self.vars:
            self.vars[name] = z3.Const(name, sort)
            self.var_meta[name] = (kind, extra)
        return self.vars[name]

    def sym_str(self, name, exclude='', regex=None, ident=False, nonempty=False):
        """Symbolic string of unbounded length. exclude: characters it may not contain (asserted)."""
        if self.concrete is not None:
            return self.concrete.get(name, 'x' if nonempty or ident else '')
        v = self._declare(name, z3.StringSort(), 'str')
        if nonempty:
            self.pc.append(z3.Length(v) > 0)
        if ident:
            self.pc.append(z3.InRe(v, IDENT_RE))
            return SymStr.atom(v, IDENT_CHARS)
        ch = Chars(exclude)
        self.pc.extend(ch.constraints(v))
        if regex is not None:
            self.pc.append(z3.InRe(v, regex))
        return SymStr.atom(v, ch)

    def sym_int(self, name, lo=None, hi=None):
        if self.concrete is not None:
            return self.concrete.get(name, lo if lo is not None else 0)
        v = self._declare(name, z3.IntSort(), 'int')
        if lo is not None:
            self.pc.append(v >= lo)
        if hi is not None:
            self.pc.append(v <= hi)
        return SymInt(v)

    def sym_bool(self, name):
        if self.concrete is not None:
            return self.concrete.get(name, False)
        return SymBool(self._declare(name, z3.BoolSort(), 'bool'))

    def sym_val(self, name):
        if self.concrete is not None:
            return self.concrete.get(name, ConcreteVal(name))
        return SymVal(self._declare(name, SymVal.Sort, 'val'))

    def choice(self, name, n):
        """Symbolic choice in range(n), returned as a concrete int by forking (lazy enumeration driven by the solver)."""
        if n <= 1:
            return 0
        if self.concrete is not None:
            return self.concrete.get(name, 0)
        if name in self.vars:
            raise SxUnsupported(f'choice variable {name} used twice on one path')
        v = self.sym_int(name, 0, n - 1)
        # a fresh variable constrained only by its range: every value is feasible, so the branch "v == i" needs no
        # solver call (both sides are satisfiable by construction); the decisions still drive the search tree
        for i in range(n - 1):
            if self._decide(v.t == i, known=(True, True)):
                return i
        return n - 1

    def flag(self, name):
        if self.concrete is not None:
            return bool(self.concrete.get(name, False))
        if name in self.vars:
            raise SxUnsupported(f'flag {name} used twice on one path')
        v = self.sym_bool(name)
        return self._decide(v.t, known=(True, True))      # fresh unconstrained boolean: both values are feasible

    # ---- decisions
    def decide(self, cond):
        cond = z3.simplify(cond)
        if z3.is_true(cond):
            return True
        if z3.is_false(cond):
            return False
        cid = cond.get_id()
        if cid in self.decided:
            return self.decided[cid][0]
        r = self._decide(cond)
        self.decided[cid] = (r, cond)       # keep the term alive: ids are only unique among live terms
        if z3.is_not(cond):
            self.decided[cond.arg(0).get_id()] = (not r, cond.arg(0))
        return r

    def _decide(self, cond, known=None):
        i = len(self.decisions)
        if i < len(self.forced):
            b, pend = self.forced[i]
            self.decisions.append((b, pend))
            self.pc.append(cond if b else z3.Not(cond))
            if self._eval_in_model(cond) is not b:
                self.model = None
            return b
        if known is not None:
            can_t, can_f = known
            self.model = None
            if can_t and can_f:
                self.decisions.append((True, True))
                self.pc.append(cond)
                return True
        guess = self._eval_in_model(cond)
        if guess is True:
            can_t = True
            can_f = self.feasible([z3.Not(cond)], keep_model=False) != 'unsat'
        elif guess is False:
            can_f = True
            saved = self.model
            can_t = self.feasible([cond]) != 'unsat'      # keeps the model of the branch that will be taken
            if not can_t:
                self.model = saved
        else:
            can_t = self.feasible([cond]) != 'unsat'
            if can_t:
                saved = self.model
                can_f = self.feasible([z3.Not(cond)], keep_model=False) != 'unsat'
                self.model = saved
            else:
                can_f = self.feasible([z3.Not(cond)]) != 'unsat'
        taken = cond if can_t else z3.Not(cond)
        if self._eval_in_model(taken) is not True:
            self.model = None
        if can_t and can_f:
            self.decisions.append((True, True))
            self.pc.append(cond)
            return True
        if can_t:
            self.decisions.append((True, False))
            self.pc.append(cond)
            return True
        if can_f:
            self.decisions.append((False, False))
            self.pc.append(z3.Not(cond))
            return False
        raise PathAbort('infeasible')

    def feasible(self, extra, keep_model=True):
        r, m = smt.feasible(self.pc + list(extra), self.feas_timeout_ms)
        if keep_model:
            self.model = m if r == 'sat' else None
        return r

    def _eval_in_model(self, cond):
        """Truth value of cond under the cached model of the current path condition (None if unavailable)."""
        if self.model is None:
            return None
        try:
            v = self.model.eval(cond, model_completion=True)
        except z3.Z3Exception:
            return None
        if z3.is_true(v):
            return True
        if z3.is_false(v):
            return False
        return None

    def assume(self, cond):
        """Precondition; place it before the code it constrains."""
        t = to_bool_term(cond)
        t = z3.simplify(t)
        if z3.is_true(t):
            return
        if z3.is_false(t):
            raise PathAbort('assumption false')
        self.pc.append(t)
        if self._eval_in_model(t) is True:
            return
        if self.feasible([]) == 'unsat':
            raise PathAbort('assumption infeasible')

    def reach(self, label):
        self.reached[label] = self.reached.get(label, 0) + 1

    def observe(self, name, value):
        """Record an output for concolic comparison."""
        self.obs[name] = value

    # ---- assertions
    def check(self, cond, label, info=None, known=None):
        """Assert `cond` on this path: the query pc ∧ ¬cond must be unsat.
        known: {finding_id: class_predicate}: the finding's input class is assumed away first; the class itself is
        queried separately and reported as KNOWN-FINDING when still satisfiable."""
        self.reach(label)
        self.path_kinds.append('smt')
        self.checks += 1
        neg = z3.simplify(z3.Not(to_bool_term(cond)))
        if z3.is_false(neg):
            self.path_checks.append((label, 'trivial'))
            smt.STATS.decide += 1
            smt.STATS.unsat += 1
            return True
        known = known or {}
        away = [z3.Not(to_bool_term(p)) for p in known.values()]
        r, model, detail = smt.decide(self.pc + away + [neg], self.decide_timeout_ms)
        self.path_checks.append((label, r))
        ok = True
        if r == 'sat':
            self.violations.append(Violation(label, model, info, len(self.pc)))
            ok = False
            if len(self.violations) >= self.max_violations:
                raise StopExploration()
        elif r == 'unknown':
            self.unknowns.append((label, detail))
            ok = False
        for fid, pred in known.items():
            if any(k[0] == fid for k in self.known):
                continue          # one confirmed instance of a recorded finding per case is enough
            r2, model2, detail2 = smt.decide(self.pc + [to_bool_term(pred), neg], self.decide_timeout_ms)
            if r2 == 'sat':
                kv = Violation(label, model2, info, len(self.pc))
                self.known.append((fid, label, kv.model, kv.info))
            elif r2 == 'unknown':
                self.unknowns.append((label + '/known:' + fid, detail2))
        return ok

    def check_concrete(self, ok, label, info=None, known_id=None):
        """Assertion whose condition is already concrete on this path (the path condition carries the quantification)."""
        self.path_kinds.append('concrete')
        self.reach(label)
        self.checks += 1
        smt.STATS.decide += 1
        if ok:
            smt.STATS.unsat += 1
            return True
        smt.STATS.sat += 1
        if known_id is not None and any(k[0] == known_id and k[1] == label for k in self.known):
            return False      # one confirmed instance of a recorded finding per label and case is enough
        # the path itself must be feasible for this to be a counterexample: ask for a model of the pc
        r, model, detail = smt.decide(self.pc, self.decide_timeout_ms, cross=False)
        smt.STATS.decide -= 1
        if r == 'unsat':
            return True
        if r == 'unknown':
            self.unknowns.append((label, detail))
            return False
        if known_id is not None:
            kv = Violation(label, model, info, len(self.pc))
            self.known.append((known_id, label, kv.model, kv.info))
            return False
        self.violations.append(Violation(label, model, info, len(self.pc)))
        if len(self.violations) >= self.max_violations:
            raise StopExploration()
        return False

    def path_model(self):
        r, model, _ = smt.decide(self.pc, self.decide_timeout_ms, cross=False)
        smt.STATS.decide -= 1
        if r == 'sat':
            setattr(smt.STATS, 'sat', smt.STATS.sat - 1)
            return model
        if r in ('unsat', 'unknown'):
            setattr(smt.STATS, r, getattr(smt.STATS, r) - 1)
        return None


class ConcreteVal:
    """Concrete stand-in for an opaque payload during concolic re-runs."""

    def __init__(self, name):
        self.name = name

    def __repr__(self):
        return f'<val {self.name}>'

    def __eq__(self, o):
        return isinstance(o, ConcreteVal) and o.name == self.name

    def __hash__(self):
        return hash(self.name)


def explore(fn, max_paths=20000, ctx=None, time_budget_s=None, concolic=None, **ctxkw):
    """Run fn(ctx) once per feasible path. Returns ctx; ctx.exhausted tells whether the decision tree was finished."""
    ctx = ctx or Ctx(**ctxkw)
    prev = Ctx.cur
    Ctx.cur = ctx
    prefix = []
    t0 = time.time()
    ctx.exhausted = False
    try:
        while True:
            ctx.new_path(prefix)
            ctx.paths += 1
            try:
                q0 = smt.STATS.feas + smt.STATS.decide
                fn(ctx)
                if ctx.decisions:
                    ctx.nontrivial_paths += 1
                    if (smt.STATS.feas + smt.STATS.decide == q0 or all(k == 'concrete' for k in ctx.path_kinds)) \
                            and (ctx.paths <= 200 or ctx.paths % 16 == 0):
                        # a path steered only by choice variables whose feasibility is known by construction: let the
                        # solver confirm the assignment (every path up to 200 per case, then every 16th)
                        r = smt.confirm_choices(ctx.pc, ctx.feas_timeout_ms)
                        if r == 'unsat':
                            ctx.unsupported.append('internal: explored path has an unsatisfiable path condition')
                if len(ctx.samples) < 5:
                    ctx.samples.append({'decisions': [b for b, _ in ctx.decisions],
                                        'pc': [str(c)[:160] for c in ctx.pc[:6]],
                                        'checks': ctx.path_checks[:8]})
                if concolic is not None:
                    concolic(ctx, fn)
            except PathAbort:
                pass
            except StopExploration:
                ctx.stopped = True
                ctx.exhausted = True      # the case ends with counterexamples; nothing is claimed about the rest
                break
            except SxUnsupported as e:
                ctx.unsupported.append(str(e) + ' @ ' + _where())
            d = ctx.decisions
            while d and not d[-1][1]:
                d.pop()
            if not d:
                ctx.exhausted = True
                break
            prefix = [(b, p) for b, p in d[:-1]] + [(not d[-1][0], False)]
            if ctx.paths >= max_paths or (time_budget_s and time.time() - t0 > time_budget_s):
                break
    finally:
        Ctx.cur = prev
    return ctx


def _where():
    tb = traceback.extract_tb(__import__('sys').exc_info()[2])
    for fr in reversed(tb):
        if '/sx/' not in fr.filename:
            return f'{fr.filename.rsplit("/", 1)[-1]}:{fr.lineno}'
    return '?'


def concolic_rerun(ctx, fn):
    """Re-run the harness with the concrete values of a model of the path condition and compare the observations."""
    if not ctx.obs:
        return
    model = ctx.path_model()
    if model is None or '__z3model__' not in model:
        return
    sym_obs = dict(ctx.obs)
    m = model['__z3model__']
    conc = {}
    for name, var in ctx.vars.items():
        kind, _ = ctx.var_meta[name]
        val = m.eval(var, model_completion=True)
        if kind == 'val':
            conc[name] = ConcreteVal(str(val))
        else:
            conc[name] = smt._pyval(val)
    saved = (ctx.pc, ctx.decisions, ctx.forced, ctx.vars, ctx.var_meta, ctx.obs, ctx.path_checks, ctx.reached,
             ctx.checks)
    ctx.concrete = conc
    ctx.obs = {}
    try:
        ctx.reached = dict(ctx.reached)
        try:
            fn(ctx)
            got = dict(ctx.obs)
        except (PathAbort, SxUnsupported) as e:
            got = {'__error__': repr(e)}
    finally:
        ctx.concrete = None
        (ctx.pc, ctx.decisions, ctx.forced, ctx.vars, ctx.var_meta, ctx.obs, ctx.path_checks, ctx.reached,
         ctx.checks) = saved
    ctx.concolic += 1
    for k, sv in sym_obs.items():
        exp = _concretize(sv, m)
        if k not in got or not _same(exp, _concretize(got[k], m)):
            ctx.concolic_mismatch.append({'obs': k, 'expected_from_model': repr(exp)[:200],
                                          'native': repr(got.get(k, got.get('__error__')))[:200],
                                          'inputs': {a: repr(b)[:60] for a, b in conc.items()}})


def _concretize(v, m):
    if isinstance(v, SymVal):
        return ConcreteVal(str(m.eval(v.t, model_completion=True)))
    if z3.is_expr(v):
        return smt._pyval(m.eval(v, model_completion=True))
    if isinstance(v, Sym):
        return smt._pyval(m.eval(v.t, model_completion=True))
    if isinstance(v, (list, tuple)):
        return type(v)(_concretize(x, m) for x in v)
    if isinstance(v, dict):
        return {k: _concretize(x, m) for k, x in v.items()}
    return v


def _strip(v):
    if isinstance(v, Sym):
        return '<symbolic>'
    if isinstance(v, (list, tuple)):
        return [_strip(x) for x in v]
    if isinstance(v, dict):
        return {k: _strip(x) for k, x in v.items()}
    return v


def _same(a, b):
    if isinstance(a, (list, tuple)) and isinstance(b, (list, tuple)):
        return len(a) == len(b) and all(_same(x, y) for x, y in zip(a, b))
    if isinstance(a, dict) and isinstance(b, dict):
        return a.keys() == b.keys() and all(_same(a[k], b[k]) for k in a)
    return type(a) is type(b) and a == b or (isinstance(a, str) and isinstance(b, str) and str(a) == str(b))
