#!/bin/bash
# Build the overlay virtualenv the checks run in: /venv (taskchain's own deps) + z3, cvc5, crosshair from the offline wheelhouse.
set -e
cd "$(dirname "$0")"
V=.venv
if [ ! -x $V/bin/python ] || ! $V/bin/python -c "import z3, cvc5, crosshair, yaml, networkx" >/dev/null 2>&1; then
  rm -rf $V
  /venv/bin/python -m venv $V
  SP=$($V/bin/python -c "import sysconfig; print(sysconfig.get_paths()['purelib'])")
  echo "import site; site.addsitedir('/venv/lib/python3.12/site-packages')" > "$SP/_base.pth"
  PIP_NO_INDEX=1 $V/bin/python -m pip install -q --no-index --find-links /opt/veriftools/wheels z3-solver cvc5 crosshair-tool jsonschema >/dev/null
fi
$V/bin/python -c "import z3, cvc5, crosshair; print('overlay ok: z3', z3.get_version_string(), 'cvc5', cvc5.__version__)"
# translator validation (informational): the repository's own tests with taskchain loaded through the import hook
if PYTHONDONTWRITEBYTECODE=1 PYTHONWARNINGS=ignore $V/bin/python -m sx.selftest >/tmp/.sx_selftest.$$ 2>&1; then
  echo "selftest: $(grep -E 'passed|failed' /tmp/.sx_selftest.$$ | tail -1)"
else
  echo "selftest: FAILED (instrumented code does not behave like the original on the repository's tests)"; tail -5 /tmp/.sx_selftest.$$
fi
rm -f /tmp/.sx_selftest.$$
