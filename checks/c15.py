"""C15 — file caches stay consistent under concurrent use.

Program: every method of FileCache and its subclasses, read from /repo's cache.py on every run and turned into
generators by an AST pass: before every statement that touches the shared environment a `yield` announces what the
statement is about to do (lock acquire / release, read of the entry's file, truncate / write / publish, directory
test / creation, the caller's own computation); `with <lock>:` becomes announce-acquire-try/finally-announce-release.
The schedule -- which enabled caller performs its announced operation next -- is a sequence of symbolic choices, as is
what a reader overlapping a writer sees of the file (any of three prefixes).
Reduction: operations that touch nothing shared run together with the operation before them, and of all schedules
that differ only in the order of adjacent commuting operations (two reads; a lock operation and a file operation;
directory and file operations) one representative is explored.  `selfcheck` cases compare, on configurations small
enough, the set of outcomes of the reduced exploration with that of the exploration of every interleaving.
"""
import ast
import os
import types

from sx import explore, driver, replay as _rp

PROPERTY = 'C15'
FUNCTIONS = ['taskchain.cache.FileCache.get', 'taskchain.cache.FileCache.get_or_compute', 'taskchain.cache.JsonCache',
             'taskchain.cache.DataFrameCache']
EXPLANATION = ('Generator forms of the real cache methods (regenerated from cache.py) run under a scheduler whose '
               'choices are bounded symbolic integers: every interleaving -- up to reordering of commuting '
               'operations -- of 2 (thorough 3) callers over lock, existence check, load, compute, truncate, write, '
               'directory creation is explored, with the file content a concurrent reader sees chosen among empty / '
               'half / all-but-last-byte. Asserted on every schedule: each call returns a completely computed value '
               'for the key; get returns NO_VALUE only if no complete entry had been stored before it started; no '
               'call fails because of the other; the entry is complete at quiescence; a call starting after a '
               'complete entry was stored (pre-state or a writer that has returned) does not compute unless it is '
               'itself forced; some caller is always enabled.')
ASSUMPTIONS = ['filelock.FileLock modelled as a mutex per lock file (re-entrant for every thread when constructed with '
               'thread_local=False, as documented); threads and processes are not distinguished',
               'a buffered write becomes visible at close; a reader between truncate and close sees a prefix; '
               'DataFrame.to_pickle opens, writes and closes in three steps',
               'loading a truncated file raises what the real library raises (ValueError for JSON, EOFError / '
               'UnpicklingError for pickles)',
               'commutation used by the reduction: reads commute with reads, lock operations with file and directory '
               'operations, directory operations with file operations; everything else is ordered both ways']
OUTSIDE = ['more than 3 concurrent callers', 'OS-level behaviour of filelock and of partial page writes',
           'lock timeouts (time is not modelled)', 'NumpyArrayCache payloads (same code path as the other two)',
           'replay uses the same generator forms (no real threads); seeded/reverts/d365a5e.demo.py shows one '
           'counterexample schedule with real threads on the real library']
REACH = ['returns-completed-value', 'quiescent-entry-complete', 'late-caller-does-not-recompute']

GEN_FUNCS = set()      # filled per run: every plain method of FileCache and its subclasses in cache.py
NOT_GEN = {'subcache', 'extension'}


READS = {'exists', 'load', 'read_pickle'}
WRITES = {'dump', 'to_pickle', 'save'}


class Gen(ast.NodeTransformer):
    """Generator forms: before every statement that touches the shared environment a `yield ('pt', kind)` announces
    what the statement is about to do -- kind 'r' (reads the entry's file), 'w' (truncates / publishes / writes it),
    'd' (creates or tests the entry's directory), 'l' (lock), 'c' (the caller's own computation) or 'n' (nothing
    shared: entering save_value / load_value); `with lock:` becomes `yield ('acq', lock)`, acquire, try/finally with
    `yield ('pt', 'l')` before the release."""

    def __init__(self, tree):
        self.infn = False
        self.incls = False
        # the cache classes: FileCache and whatever derives from it (transitively) in this module
        fam = {'FileCache'}
        changed = True
        while changed:
            changed = False
            for n in tree.body:
                if isinstance(n, ast.ClassDef) and n.name not in fam and any(isinstance(b, ast.Name) and b.id in fam for b in n.bases):
                    fam.add(n.name)
                    changed = True
        self.family = fam
        GEN_FUNCS.clear()
        for n in tree.body:
            if isinstance(n, ast.ClassDef) and n.name in fam:
                for f in n.body:
                    if isinstance(f, ast.FunctionDef) and not f.name.startswith('__') and f.name not in NOT_GEN \
                            and not f.decorator_list:
                        GEN_FUNCS.add(f.name)

    def visit_ClassDef(self, node):
        if node.name not in self.family:
            return node
        self.incls = True
        self.generic_visit(node)
        self.incls = False
        return node

    def visit_FunctionDef(self, node):
        if not self.incls or node.name not in GEN_FUNCS or self.infn:
            return node
        self.infn = True
        self.fn = node.name
        node.body = [ast.Expr(ast.Yield(ast.Tuple([ast.Constant('pt'), ast.Constant('n')], ast.Load())))] + self.block(node.body)
        self.infn = False
        return node

    @staticmethod
    def is_lock(expr):
        return (isinstance(expr, ast.Name) and 'lock' in expr.id.lower()) or \
            (isinstance(expr, ast.Call) and isinstance(expr.func, ast.Name) and 'lock' in expr.func.id.lower())

    def kind(self, s):
        """None: the statement touches nothing shared."""
        hdr = s
        if isinstance(s, ast.If):
            hdr = s.test
        elif isinstance(s, ast.With):
            hdr = s.items[0].context_expr
        elif isinstance(s, ast.Try):
            return None
        kinds = set()
        for n in ast.walk(hdr):
            if isinstance(n, ast.Call):
                f = n.func
                if isinstance(f, ast.Name) and f.id == 'computer':
                    kinds.add('c')
                if not isinstance(f, ast.Attribute):
                    continue
                if f.attr == 'open':
                    modes = [a.value for a in list(n.args) + [k.value for k in n.keywords]
                             if isinstance(a, ast.Constant) and isinstance(a.value, str) and len(a.value) <= 3]
                    kinds.add('w' if any(c in m for m in modes for c in 'wax+') else 'r')
                elif f.attr in READS:
                    kinds.add('r')
                elif f.attr in WRITES:
                    kinds.add('w')
                elif f.attr == 'mkdir':
                    kinds.add('d')
                elif f.attr in GEN_FUNCS and isinstance(f.value, ast.Name) and f.value.id == 'self':
                    kinds.add('n')
        for k in 'wrdcn':
            if k in kinds:
                return 'd' if (self.fn == 'filepath' and k in 'wr') else k
        return None

    def block(self, stmts):
        out = []
        for s in stmts:
            k = self.kind(s)
            lock_with = isinstance(s, ast.With) and self.is_lock(s.items[0].context_expr)
            plain_with = isinstance(s, ast.With) and not lock_with
            s2 = self.stmt(s)
            if k is not None and not lock_with:
                out.append(ast.Expr(ast.Yield(ast.Tuple([ast.Constant('pt'), ast.Constant(k)], ast.Load()))))
            if plain_with and k == 'w':
                # the buffered data reaches the file when the handle is closed
                s2.body.append(ast.Expr(ast.Yield(ast.Tuple([ast.Constant('pt'), ast.Constant('w')], ast.Load()))))
            out.extend(s2 if isinstance(s2, list) else [s2])
        return out

    def stmt(self, s):
        if isinstance(s, ast.With):
            item = s.items[0]
            if self.is_lock(item.context_expr):
                body = self.block(s.body)
                pre = ast.Assign([ast.Name('_lk', ast.Store())], item.context_expr)
                acq = ast.parse("yield ('acq', _lk)\nwhile not _lk.try_acquire():\n    yield ('acq', _lk)").body
                tr = ast.Try(body=body, handlers=[], orelse=[],
                             finalbody=ast.parse("yield ('pt', 'l')\n_lk.release()").body)
                return [pre] + acq + [tr]
            s.body = self.block(s.body)
            return self.fix(s)
        if isinstance(s, ast.Try):
            s.body = self.block(s.body)
            for h in s.handlers:
                h.body = self.block(h.body)
            s.orelse = self.block(s.orelse) if s.orelse else []
            s.finalbody = self.block(s.finalbody) if s.finalbody else []
            return s
        if isinstance(s, ast.If):
            s.body = self.block(s.body)
            s.orelse = self.block(s.orelse) if s.orelse else []
            return self.fix(s)
        return self.fix(s)

    def fix(self, s):
        class C(ast.NodeTransformer):
            def visit_Call(self, n):
                self.generic_visit(n)
                if isinstance(n.func, ast.Attribute) and n.func.attr in GEN_FUNCS and \
                        isinstance(n.func.value, ast.Name) and n.func.value.id == 'self':
                    return ast.YieldFrom(n)
                if isinstance(n.func, ast.Attribute) and n.func.attr == 'to_pickle':
                    return ast.YieldFrom(n)           # (the model's to_pickle writes in steps, like the real one)
                return n

            def visit_FunctionDef(self, n):
                return n

            def visit_Lambda(self, n):
                return n
        if isinstance(s, ast.If):
            s.test = C().visit(s.test)
            return s
        if isinstance(s, ast.With):
            return s
        return C().visit(s)


def dependent(a, b):
    """two announced operations of different callers do not commute"""
    if a in 'rw' and b in 'rw':
        return 'w' in (a, b)
    return a == b and a in 'ld'


# ---------------------------------------------------------------- model environment
class World:
    def __init__(self, ctx):
        self.ctx = ctx
        self.files = {}
        self.dirs = set()
        self.locks = {}
        self.cur = None
        self.nview = 0


class MFile:
    def __init__(self):
        self.content = None       # None = absent, else str
        self.writing = False
        self.full = None


_CODE = {}
OUTCOME_SINK = None
REDUCE = [True]      # False: every announced point is a scheduling point and nothing is pruned (selfcheck only)


def parse(s, tag):
    """content of a model cache file: <tag> + repr(payload) + '$', nothing else (anything else does not load)"""
    if not (s.startswith(tag) and s.endswith('$')):
        raise ValueError('truncated / empty / corrupt file')
    try:
        v = ast.literal_eval(s[1:-1])
    except (ValueError, SyntaxError):
        raise ValueError('corrupt file')
    if tag + repr(v) + '$' != s:
        raise ValueError('corrupt file')
    return v


def drain(gen):
    try:
        while True:
            gen.send(None)
    except StopIteration as s:
        return s.value


def build_module(W):
    if 'code' not in _CODE:
        src_path = os.path.join(os.environ.get('SX_REPO_SRC', '/repo/src'), 'taskchain', 'cache.py')
        tree = ast.parse(open(src_path).read())
        tree = Gen(tree).visit(tree)
        ast.fix_missing_locations(tree)
        _CODE['code'] = compile(tree, 'taskchain/cache.py<generators>', 'exec')     # once per process and run
    mod = types.ModuleType('taskchain_cache_generators')

    class Lock:
        def __init__(self, path, mode=None, thread_local=True, is_singleton=False, **kw):
            self.l = W.locks.setdefault(path, {'owner': None, 'count': 0})
            self.shared = (thread_local is False)          # one re-entrant lock object for every thread

        def free(self):
            return self.shared or self.l['owner'] is None

        def try_acquire(self):
            if self.shared:
                self.l['count'] += 1
                return True
            if self.l['owner'] is None:
                self.l['owner'] = W.cur
                return True
            return False

        def release(self):
            if self.shared:
                self.l['count'] -= 1
                return
            assert self.l['owner'] == W.cur, 'lock released by a thread that does not hold it'
            self.l['owner'] = None

    class MPath:
        def __init__(self, p):
            self.p = str(p)

        def __truediv__(self, o):
            return MPath(self.p + '/' + str(o))

        def __str__(self):
            return self.p

        def __repr__(self):
            return f'MPath({self.p})'

        def mkdir(self, mode=0o777, parents=False, exist_ok=False):
            if self.p in W.dirs:
                if not exist_ok:
                    raise FileExistsError(self.p)
                return
            parent = self.p.rsplit('/', 1)[0]
            if parent and parent not in W.dirs:
                if not parents:
                    raise FileNotFoundError(parent)
                MPath(parent).mkdir(parents=True, exist_ok=True)
            W.dirs.add(self.p)

        def exists(self):
            if self.p in W.dirs:
                return True
            f = W.files.get(self.p)
            return f is not None and f.content is not None

        def open(self, mode='r', encoding=None):
            if 'w' in mode and self.p.rsplit('/', 1)[0] not in W.dirs:
                raise FileNotFoundError(self.p)
            f = W.files.setdefault(self.p, MFile())
            return MHandle(f, mode)

    class MHandle:
        def __init__(self, f, mode):
            self.f, self.mode = f, mode
            if 'w' in mode:
                f.content = ''
                f.writing = True
                self.buf = ''
            elif f.content is None:
                raise FileNotFoundError()

        def __enter__(self):
            return self

        def __exit__(self, *a):
            if 'w' in self.mode:
                # the buffered data lands at this handle's own offset (0 after its truncate): whatever another
                # writer put beyond its length in the meantime stays in the file
                self.f.content = self.buf + (self.f.content or '')[len(self.buf):]
                self.f.writing = False
            return False

        def write(self, s):
            self.buf += s
            self.f.full = self.buf

        def read(self):
            f = self.f
            if f.writing and f.full:
                # a reader overlapping a writer: what has reached the file so far is any prefix
                W.nview += 1
                kind = W.ctx.choice(f'view{W.nview}', 3)
                full = f.full
                return ['', full[:len(full) // 2], full[:-1]][kind]
            return f.content

    class JsonStub:
        @staticmethod
        def dump(obj, f):
            f.write('J' + repr((obj['key'], obj['value'])) + '$')

        @staticmethod
        def load(f):
            s = f.read()
            k, v = parse(s, 'J')
            return {'key': k, 'value': v}

    class PdStub:
        @staticmethod
        def read_pickle(path):
            with path.open('rb') as f:
                s = f.read()
            if s == '':
                raise EOFError('Ran out of input')
            try:
                return Frame(parse(s, 'P'))
            except ValueError:
                import pickle
                raise pickle.UnpicklingError('pickle data was truncated')

    class Frame:
        def __init__(self, v):
            self.v = v

        def to_pickle(self, path):
            yield ('pt', 'w')
            f = path.open('wb')
            yield ('pt', 'w')
            f.write('P' + repr(self.v) + '$')
            yield ('pt', 'w')
            f.__exit__(None, None, None)

    exec(_CODE['code'], mod.__dict__)
    mod.Path = MPath
    mod.FileLock = Lock
    mod.json = JsonStub
    mod.pd = PdStub
    mod.Frame = Frame
    mod.logger.disabled = True
    return mod


def bounds(tier):
    return {'callers': '2 (all ordered pairs of operations)' if tier == 'quick' else '2 (all ordered pairs) and 3 (all multisets of operations), both caches, every pre-state',
            'schedules': 'all, up to reordering of adjacent commuting operations',
            'selfcheck_configurations': 2 if tier == 'quick' else len(SELFCHECK),
            'caches': ['JsonCache', 'DataFrameCache'],
            'pre_states': ['absent', 'intact', 'empty', 'torn', "nodir (the entry's directory does not exist yet)"], 'operations': ['get', 'get_or_compute', 'get_or_compute(force)'],
            'reader_views_of_a_file_being_written': 3}


def cases(tier):
    out = []
    import itertools
    for ctype in ('json', 'pd'):
        for pre in ('absent', 'intact', 'empty', 'torn', 'nodir'):
            for ops in itertools.product(range(3), repeat=2):
                out.append((ctype, pre, ops))
    for c in (SELFCHECK[4:] if tier == 'quick' else SELFCHECK):
        out.append(('selfcheck', c))
    if tier == 'thorough':
        # three callers: every multiset of operations
        for ctype in ('json', 'pd'):
            for pre in ('absent', 'intact', 'empty', 'torn', 'nodir'):
                for ops in itertools.combinations_with_replacement(range(3), 3):
                    out.append((ctype, pre, ops))
        # four callers on the JSON cache
        for pre in ('absent', 'intact', 'torn'):
            for ops in itertools.combinations_with_replacement(range(3), 4):
                out.append(('json', pre, ops))
    return out


def make_harness(case, tier):
    ctype, pre, ops = case

    def harness(ctx):
        W = World(ctx)
        mod = build_module(W)
        cache = (mod.JsonCache if ctype == 'json' else mod.DataFrameCache)('/c')
        fp = str(drain(cache.filepath('k')))
        if pre == 'nodir':
            W.dirs.discard(fp.rsplit('/', 1)[0])
        mk = (lambda v: v) if ctype == 'json' else (lambda v: mod.Frame(v))
        un = (lambda v: v) if ctype == 'json' else (lambda v: v.v if hasattr(v, 'v') else v)
        full_old = ('J' + repr(('k', 'old')) + '$') if ctype == 'json' else ('P' + repr('old') + '$')
        if pre not in ('absent', 'nodir'):
            W.files[fp] = MFile()
            W.files[fp].content = {'intact': full_old, 'empty': '', 'torn': full_old[:len(full_old) // 2]}[pre]
        computed, completed = [], []

        def computer_for(t):
            def computer():
                v = f'v{t}' + 'x' * (7 * t)      # payloads of different lengths
                computed.append(v)
                completed.append(v)
                return mk(v)
            return computer
        gens = {}
        for t, op in enumerate(ops):
            if op == 0:
                gens[t] = cache.get('k')
            else:
                gens[t] = cache.get_or_compute('k', computer_for(t), force=(op == 2))
        results, nxt = {}, {}
        started, finished_before_start = {}, {}
        order_finished = []
        trace = []
        info = {'cache': ctype, 'pre': pre, 'ops': [['get', 'get_or_compute', 'forced'][o] for o in ops]}

        def kind_of(y):
            if y[0] == 'acq':
                return 'l'
            k = y[1]
            if k == 'd' and pre != 'nodir':
                return 'n'          # the entry's directory exists: creating / testing it again changes nothing
            return k

        def advance(t):
            """one announced operation of caller t, then everything that follows and touches nothing shared"""
            W.cur = t
            try:
                while True:
                    y = gens[t].send(None)
                    if not REDUCE[0] or kind_of(y) not in 'nc':
                        nxt[t] = y
                        return
            except StopIteration as s:
                results[t] = ('ret', s.value)
            except Exception as e:
                results[t] = ('exc', f'{type(e).__name__}: {e}'[:100])
            order_finished.append(t)
            del gens[t]
            nxt.pop(t, None)
        for t in sorted(gens):
            advance(t)               # up to the first shared operation (nothing shared happens before it)
        step, last = 0, None
        while gens:
            enabled = [t for t in sorted(gens) if not (nxt[t][0] == 'acq' and not nxt[t][1].free())]
            if not enabled:
                ctx.check_concrete(False, 'no-deadlock', dict(info, trace=trace))
                return
            step += 1
            if step > 200:
                ctx.check_concrete(False, 'terminates', dict(info, trace=trace[:60]))
                return
            # one representative per class of schedules that differ only in the order of commuting operations: a
            # caller with a smaller index does not move directly after an operation it commutes with (it went first)
            cands = [t for t in enabled if not (REDUCE[0] and last is not None and t < last[0]
                                                and not dependent(kind_of(nxt[t]), last[1]))]
            if not cands:
                for g in gens.values():          # (not a representative: its reordered twin is explored)
                    try:
                        g.close()
                    except RuntimeError:
                        pass
                return
            t = cands[ctx.choice(f's{step}', len(cands))] if len(cands) > 1 else cands[0]
            trace.append(t)
            k = kind_of(nxt[t])
            if t not in started and k in 'lrw':
                started[t] = True
                finished_before_start[t] = list(order_finished)
            last = (t, k)
            advance(t)
        info = dict(info, schedule=''.join(map(str, trace)))
        if OUTCOME_SINK is not None:      # (selftest: the reduced exploration reaches the outcomes of the full one)
            OUTCOME_SINK.add((tuple(sorted((t, r[0], repr(un(r[1])) if r[0] == 'ret' else r[1]) for t, r in results.items())),
                              W.files[fp].content if fp in W.files else None, tuple(sorted(computed)),
                              tuple(sorted((t, tuple(sorted(v))) for t, v in finished_before_start.items()))))
        valid = set(completed) | ({'old'} if pre == 'intact' else set())
        # a complete entry was stored before caller t did anything shared: the pre-state, or a writer that had returned
        entry_before = {t: pre == 'intact' or any(ops[u] > 0 for u in finished_before_start.get(t, []))
                        for t in range(len(ops))}
        for t, op in enumerate(ops):
            kind, v = results[t]
            if op == 0:
                # get may miss only while no complete entry has been stored yet -- not because somebody is rewriting it
                ok = kind == 'ret' and ((v is mod.NO_VALUE and not entry_before[t]) or (v is not mod.NO_VALUE and un(v) in valid))
            else:
                ok = kind == 'ret' and v is not mod.NO_VALUE and un(v) in valid
            ctx.check_concrete(ok, 'returns-completed-value', dict(info, caller=t, entry_stored_before_call=entry_before[t],
                                                                   got=repr((kind, un(v) if kind == 'ret' else v))[:120]))
        content = W.files[fp].content if fp in W.files else None
        if content is not None and (computed or pre == 'intact'):
            try:
                parse(content, 'J' if ctype == 'json' else 'P')
                good = True
            except ValueError:
                good = False
            ctx.check_concrete(good, 'quiescent-entry-complete', dict(info, content=content[:60]))
        # a call that started after another call had returned does not compute unless it is itself forced
        for t, op in enumerate(ops):
            if op == 1 and any(c.startswith(f'v{t}') for c in computed) and entry_before[t]:
                ctx.check_concrete(False, 'late-caller-does-not-recompute', dict(info, caller=t))
        ctx.reach('late-caller-does-not-recompute')
    return harness


# (configurations whose full exploration finishes within about a minute; with a damaged or rewritten entry the retries
# of the readers put the full exploration out of reach -- that is what the reduction is for)
SELFCHECK_BUDGET_S = 200
SELFCHECK = [('json', 'absent', (1, 1)), ('json', 'absent', (1, 2)), ('pd', 'absent', (1, 1)), ('json', 'nodir', (1, 1)),
             ('json', 'absent', (0, 1)), ('pd', 'nodir', (0, 2))]


def selfcheck(case):
    """the reduced exploration reaches exactly the outcomes (returned values, stored entry, computations, who had
    returned before whom started) of the exploration of every interleaving, on configurations small enough for both"""
    global OUTCOME_SINK
    sets = []
    stats = []
    for reduce_ in (False, True):
        REDUCE[0] = reduce_
        OUTCOME_SINK = set()
        try:
            ctx = explore.explore(make_harness(case[1], 'quick'), max_paths=3000000, time_budget_s=SELFCHECK_BUDGET_S)
        finally:
            REDUCE[0] = True
        sets.append(OUTCOME_SINK)
        stats.append(ctx)
        OUTCOME_SINK = None
    full, red = sets
    complete = all(c.exhausted and not c.violations for c in stats)

    def h(ctx):
        if not complete:
            # the exploration of every interleaving did not finish in its budget (or found violations): nothing to
            # compare; this is a test of the machinery, the property is decided by the other cases
            ctx.reach('reduction-selfcheck-skipped')
            return
        ctx.check_concrete(full == red, 'reduction-selfcheck',
                           {'case': repr(case[1]), 'outcomes_full': len(full), 'outcomes_reduced': len(red),
                            'both_explorations_finished': complete,
                            'only_full': repr(sorted(full - red)[:2]), 'only_reduced': repr(sorted(red - full)[:2])})
    c2 = explore.explore(h, max_paths=2)
    r2 = driver.result_from_ctx(c2)
    r2['entered_extra'] = []
    return r2


def run_case(case, tier):
    if case[0] == 'selfcheck':
        return selfcheck(case)
    ctx = explore.explore(make_harness(case, tier), max_paths=(200000 if tier == 'quick' else 8000000), time_budget_s=(400 if tier == 'quick' else 3600))
    r = driver.result_from_ctx(ctx)
    # the functions of cache.py that were turned into generators and executed (this check does not use the import hook)
    r['entered_extra'] = ['taskchain.cache.FileCache.get', 'taskchain.cache.FileCache.get_or_compute', 'taskchain.cache.FileCache.filepath',
                          'taskchain.cache.' + ('JsonCache' if case[0] == 'json' else 'DataFrameCache') + '.save_value',
                          'taskchain.cache.' + ('JsonCache' if case[0] == 'json' else 'DataFrameCache') + '.load_value']
    return r
