"""C15 — file caches stay consistent under concurrent use.

Program: the real FileCache.get / get_or_compute and the save_value / load_value pairs, read from /repo's cache.py on
every run and turned into generators by an AST pass (a scheduling point before every statement that touches the shared
environment: lock acquire/release, exists, open, close, load, dump, computer(); `with lock:` becomes a try-acquire
loop; statements without environment calls are thread-local and commute).  The schedule -- which enabled thread moves
next -- is a sequence of symbolic choices, as is what a reader overlapping a writer sees of the file (any of three
prefixes).  Every schedule is explored.
"""
import ast
import os
import types

from sx import explore, driver, replay as _rp

PROPERTY = 'C15'
FUNCTIONS = ['taskchain.cache.FileCache.get', 'taskchain.cache.FileCache.get_or_compute', 'taskchain.cache.JsonCache',
             'taskchain.cache.DataFrameCache']
EXPLANATION = ('Generator forms of the real cache methods (regenerated from cache.py) run under a scheduler whose '
               'choices are bounded symbolic integers: every interleaving of 2 (thorough 3) callers over lock, '
               'existence check, load, compute, truncate, write is explored, with the file content a concurrent '
               'reader sees chosen among empty / half / all-but-last-byte. Asserted on every schedule: each call '
               'returns a completely computed value for the key (or NO_VALUE for get), no call fails because of the '
               'other, the entry is complete at quiescence, a call starting after another returned does not compute '
               'unless forced, and some thread is always enabled.')
ASSUMPTIONS = ['filelock.FileLock modelled as a mutex per lock file (re-entrant for every thread when constructed with '
               'thread_local=False, as documented); threads and processes are not distinguished',
               'a buffered write becomes visible at close; a reader between truncate and close sees a prefix',
               'loading a truncated file raises what the real library raises (ValueError for JSON, EOFError / '
               'UnpicklingError for pickles)']
OUTSIDE = ['more than 3 concurrent callers', 'OS-level behaviour of filelock and of partial page writes',
           'replay uses the same generator forms (no real threads)']
REACH = ['returns-completed-value', 'quiescent-entry-complete', 'late-caller-does-not-recompute']

GEN_FUNCS = {'get', 'get_or_compute', 'save_value', 'load_value', 'filepath'}
ENV_CALLS = {'exists', 'mkdir', 'open', 'load_value', 'save_value', 'dump', 'load', 'to_pickle', 'read_pickle', 'save'}


class Gen(ast.NodeTransformer):
    def __init__(self):
        self.infn = False

    def visit_FunctionDef(self, node):
        if node.name not in GEN_FUNCS or self.infn:
            return node
        self.infn = True
        self.fn = node.name
        node.body = self.block(node.body)
        self.infn = False
        return node

    def is_env(self, s):
        hdr = s
        if isinstance(s, ast.If):
            hdr = s.test
        elif isinstance(s, ast.With):
            return True
        elif isinstance(s, ast.Try):
            return False
        for n in ast.walk(hdr):
            if isinstance(n, ast.Call):
                f = n.func
                if isinstance(f, ast.Attribute) and f.attr in ENV_CALLS:
                    return True
                if isinstance(f, ast.Name) and f.id == 'computer':
                    return True
        return False

    def block(self, stmts):
        out = []
        for s in stmts:
            env = self.is_env(s)
            lock_with = isinstance(s, ast.With) and isinstance(s.items[0].context_expr, ast.Name) \
                and s.items[0].context_expr.id == 'lock'
            plain_with = isinstance(s, ast.With) and not lock_with
            s2 = self.stmt(s)
            if env and not lock_with:
                # (scheduling points inside filepath() only matter while the entry's directory does not exist yet)
                out.append(ast.Expr(ast.Yield(ast.Constant('pt-dir' if self.fn == 'filepath' else 'pt'))))
            if plain_with:
                s2.body.append(ast.Expr(ast.Yield(ast.Constant('pre-close'))))
            out.extend(s2 if isinstance(s2, list) else [s2])
        return out

    def stmt(self, s):
        if isinstance(s, ast.With):
            item = s.items[0]
            if isinstance(item.context_expr, ast.Name) and item.context_expr.id == 'lock':
                body = self.block(s.body)
                acq = ast.parse("while not lock.try_acquire():\n    yield ('blocked', lock)").body[0]
                tr = ast.Try(body=body, handlers=[], orelse=[],
                             finalbody=[ast.Expr(ast.Yield(ast.Constant('pre-release'))), ast.parse('lock.release()').body[0]])
                return [acq, tr]
            s.body = self.block(s.body)
            return self.fix(s)
        if isinstance(s, ast.Try):
            s.body = self.block(s.body)
            for h in s.handlers:
                h.body = self.block(h.body)
            s.orelse = self.block(s.orelse) if s.orelse else []
            s.finalbody = self.block(s.finalbody) if s.finalbody else []
            return s
        if isinstance(s, ast.If):
            s.body = self.block(s.body)
            s.orelse = self.block(s.orelse) if s.orelse else []
            return self.fix(s)
        return self.fix(s)

    def fix(self, s):
        class C(ast.NodeTransformer):
            def visit_Call(self, n):
                self.generic_visit(n)
                if isinstance(n.func, ast.Attribute) and n.func.attr in ('save_value', 'load_value', 'filepath') and \
                        isinstance(n.func.value, ast.Name) and n.func.value.id == 'self':
                    return ast.YieldFrom(n)
                return n

            def visit_FunctionDef(self, n):
                return n

            def visit_Lambda(self, n):
                return n
        if isinstance(s, ast.If):
            s.test = C().visit(s.test)
            return s
        if isinstance(s, ast.With):
            return s
        return C().visit(s)


# ---------------------------------------------------------------- model environment
class World:
    def __init__(self, ctx):
        self.ctx = ctx
        self.files = {}
        self.dirs = set()
        self.locks = {}
        self.cur = None
        self.nview = 0


class MFile:
    def __init__(self):
        self.content = None       # None = absent, else str
        self.writing = False
        self.full = None


_CODE = {}


def parse(s, tag):
    """content of a model cache file: <tag> + repr(payload) + '$', nothing else (anything else does not load)"""
    if not (s.startswith(tag) and s.endswith('$')):
        raise ValueError('truncated / empty / corrupt file')
    try:
        v = ast.literal_eval(s[1:-1])
    except (ValueError, SyntaxError):
        raise ValueError('corrupt file')
    if tag + repr(v) + '$' != s:
        raise ValueError('corrupt file')
    return v


def drain(gen):
    try:
        while True:
            gen.send(None)
    except StopIteration as s:
        return s.value


def build_module(W):
    if 'code' not in _CODE:
        src_path = os.path.join(os.environ.get('SX_REPO_SRC', '/repo/src'), 'taskchain', 'cache.py')
        tree = ast.parse(open(src_path).read())
        tree = Gen().visit(tree)
        ast.fix_missing_locations(tree)
        _CODE['code'] = compile(tree, 'taskchain/cache.py<generators>', 'exec')     # once per process and run
    mod = types.ModuleType('taskchain_cache_generators')

    class Lock:
        def __init__(self, path, mode=None, thread_local=True, is_singleton=False, **kw):
            self.l = W.locks.setdefault(path, {'owner': None, 'count': 0})
            self.shared = (thread_local is False)          # one re-entrant lock object for every thread

        def try_acquire(self):
            if self.shared:
                self.l['count'] += 1
                return True
            if self.l['owner'] is None:
                self.l['owner'] = W.cur
                return True
            return False

        def release(self):
            if self.shared:
                self.l['count'] -= 1
                return
            assert self.l['owner'] == W.cur, 'lock released by a thread that does not hold it'
            self.l['owner'] = None

    class MPath:
        def __init__(self, p):
            self.p = str(p)

        def __truediv__(self, o):
            return MPath(self.p + '/' + str(o))

        def __str__(self):
            return self.p

        def __repr__(self):
            return f'MPath({self.p})'

        def mkdir(self, mode=0o777, parents=False, exist_ok=False):
            if self.p in W.dirs:
                if not exist_ok:
                    raise FileExistsError(self.p)
                return
            parent = self.p.rsplit('/', 1)[0]
            if parent and parent not in W.dirs:
                if not parents:
                    raise FileNotFoundError(parent)
                MPath(parent).mkdir(parents=True, exist_ok=True)
            W.dirs.add(self.p)

        def exists(self):
            if self.p in W.dirs:
                return True
            f = W.files.get(self.p)
            return f is not None and f.content is not None

        def open(self, mode='r', encoding=None):
            if 'w' in mode and self.p.rsplit('/', 1)[0] not in W.dirs:
                raise FileNotFoundError(self.p)
            f = W.files.setdefault(self.p, MFile())
            return MHandle(f, mode)

    class MHandle:
        def __init__(self, f, mode):
            self.f, self.mode = f, mode
            if 'w' in mode:
                f.content = ''
                f.writing = True
                self.buf = ''
            elif f.content is None:
                raise FileNotFoundError()

        def __enter__(self):
            return self

        def __exit__(self, *a):
            if 'w' in self.mode:
                # the buffered data lands at this handle's own offset (0 after its truncate): whatever another
                # writer put beyond its length in the meantime stays in the file
                self.f.content = self.buf + (self.f.content or '')[len(self.buf):]
                self.f.writing = False
            return False

        def write(self, s):
            self.buf += s
            self.f.full = self.buf

        def read(self):
            f = self.f
            if f.writing and f.full:
                # a reader overlapping a writer: what has reached the file so far is any prefix
                W.nview += 1
                kind = W.ctx.choice(f'view{W.nview}', 3)
                full = f.full
                return ['', full[:len(full) // 2], full[:-1]][kind]
            return f.content

    class JsonStub:
        @staticmethod
        def dump(obj, f):
            f.write('J' + repr((obj['key'], obj['value'])) + '$')

        @staticmethod
        def load(f):
            s = f.read()
            k, v = parse(s, 'J')
            return {'key': k, 'value': v}

    class PdStub:
        @staticmethod
        def read_pickle(path):
            with path.open('rb') as f:
                s = f.read()
            if s == '':
                raise EOFError('Ran out of input')
            try:
                return Frame(parse(s, 'P'))
            except ValueError:
                import pickle
                raise pickle.UnpicklingError('pickle data was truncated')

    class Frame:
        def __init__(self, v):
            self.v = v

        def to_pickle(self, path):
            with path.open('wb') as f:
                f.write('P' + repr(self.v) + '$')

    exec(_CODE['code'], mod.__dict__)
    mod.Path = MPath
    mod.FileLock = Lock
    mod.json = JsonStub
    mod.pd = PdStub
    mod.Frame = Frame
    mod.logger.disabled = True
    return mod


def bounds(tier):
    return {'callers': '2' if tier == 'quick' else '2 (both caches, all ordered pairs) and 3 (JSON cache, all multisets with at least one writer and one get)',
            'caches': ['JsonCache', 'DataFrameCache'],
            'pre_states': ['absent', 'intact', 'empty', 'torn', "nodir (the entry's directory does not exist yet)"], 'operations': ['get', 'get_or_compute', 'get_or_compute(force)'],
            'reader_views_of_a_file_being_written': 3}


def cases(tier):
    out = []
    import itertools
    for ctype in ('json', 'pd'):
        for pre in ('absent', 'intact', 'empty', 'torn', 'nodir'):
            for ops in itertools.product(range(3), repeat=2):
                out.append((ctype, pre, ops))
    if tier == 'thorough':
        # three callers: the JSON cache, every multiset of operations with at least one writer
        for pre in ('absent', 'intact', 'torn'):
            for ops in itertools.combinations_with_replacement(range(3), 3):
                if any(ops) and 0 in ops:        # (three writers without a reader: > 10^6 schedules, not explored)
                    out.append(('json', pre, ops))
    return out


def make_harness(case, tier):
    ctype, pre, ops = case

    def harness(ctx):
        W = World(ctx)
        mod = build_module(W)
        cache = (mod.JsonCache if ctype == 'json' else mod.DataFrameCache)('/c')
        fp = str(drain(cache.filepath('k')))
        if pre == 'nodir':
            W.dirs.discard(fp.rsplit('/', 1)[0])
        mk = (lambda v: v) if ctype == 'json' else (lambda v: mod.Frame(v))
        un = (lambda v: v) if ctype == 'json' else (lambda v: v.v if hasattr(v, 'v') else v)
        full_old = ('J' + repr(('k', 'old')) + '$') if ctype == 'json' else ('P' + repr('old') + '$')
        if pre not in ('absent', 'nodir'):
            W.files[fp] = MFile()
            W.files[fp].content = {'intact': full_old, 'empty': '', 'torn': full_old[:len(full_old) // 2]}[pre]
        computed, completed = [], []

        def computer_for(t):
            def computer():
                v = f'v{t}' + 'x' * (7 * t)      # payloads of different lengths
                computed.append(v)
                completed.append(v)
                return mk(v)
            return computer
        gens = {}
        for t, op in enumerate(ops):
            if op == 0:
                gens[t] = cache.get('k')
            else:
                gens[t] = cache.get_or_compute('k', computer_for(t), force=(op == 2))
        results, blocked = {}, {}
        started, finished_before_start = {}, {}
        order_finished = []
        trace = []
        step = 0
        info = {'cache': ctype, 'pre': pre, 'ops': [['get', 'get_or_compute', 'forced'][o] for o in ops]}
        while gens:
            enabled = [t for t in sorted(gens) if not (t in blocked and blocked[t].l['owner'] is not None)]
            if not enabled:
                ctx.check_concrete(False, 'no-deadlock', dict(info, trace=trace))
                return
            step += 1
            if step > 200:
                ctx.check_concrete(False, 'terminates', dict(info, trace=trace[:60]))
                return
            t = enabled[ctx.choice(f's{step}', len(enabled))] if len(enabled) > 1 else enabled[0]
            trace.append(t)
            if t not in started:
                started[t] = True
                finished_before_start[t] = list(order_finished)
            W.cur = t
            try:
                y = gens[t].send(None)
                while y == 'pt-dir' and pre != 'nodir':
                    y = gens[t].send(None)
                if isinstance(y, tuple) and y[0] == 'blocked':
                    blocked[t] = y[1]
                else:
                    blocked.pop(t, None)
            except StopIteration as s:
                results[t] = ('ret', s.value)
                order_finished.append(t)
                del gens[t]
            except Exception as e:
                results[t] = ('exc', f'{type(e).__name__}: {e}'[:100])
                order_finished.append(t)
                del gens[t]
        info = dict(info, schedule=''.join(map(str, trace)))
        valid = set(completed) | ({'old'} if pre == 'intact' else set())
        for t, op in enumerate(ops):
            kind, v = results[t]
            if op == 0:
                ok = kind == 'ret' and (v is mod.NO_VALUE or un(v) in valid)
            else:
                ok = kind == 'ret' and un(v) in valid
            ctx.check_concrete(ok, 'returns-completed-value', dict(info, caller=t, got=repr((kind, un(v) if kind == 'ret' else v))[:120]))
        content = W.files[fp].content if fp in W.files else None
        wrote = any(o > 0 for o in ops) and (pre != 'intact' or any(o == 2 for o in ops))
        if content is not None and (computed or pre == 'intact'):
            try:
                parse(content, 'J' if ctype == 'json' else 'P')
                good = True
            except ValueError:
                good = False
            ctx.check_concrete(good, 'quiescent-entry-complete', dict(info, content=content[:60]))
        # a call that started after another call had returned does not compute unless forced
        for t, op in enumerate(ops):
            if op == 1 and any(c.startswith(f'v{t}') for c in computed):
                earlier = [u for u in finished_before_start.get(t, []) if ops[u] > 0 or pre == 'intact']
                stored_before = any(ops[u] > 0 for u in finished_before_start.get(t, [])) or \
                    (pre == 'intact' and not any(ops[u] == 2 for u in range(len(ops)) if u != t))
                still_writing = any(ops[u] == 2 and u not in finished_before_start.get(t, []) for u in range(len(ops)) if u != t)
                if stored_before and not still_writing:
                    ctx.check_concrete(False, 'late-caller-does-not-recompute', dict(info, caller=t))
        ctx.reach('late-caller-does-not-recompute')
    return harness


def run_case(case, tier):
    ctx = explore.explore(make_harness(case, tier), max_paths=(200000 if tier == 'quick' else 8000000), time_budget_s=(400 if tier == 'quick' else 3600))
    r = driver.result_from_ctx(ctx)
    # the functions of cache.py that were turned into generators and executed (this check does not use the import hook)
    r['entered_extra'] = ['taskchain.cache.FileCache.get', 'taskchain.cache.FileCache.get_or_compute', 'taskchain.cache.FileCache.filepath',
                          'taskchain.cache.' + ('JsonCache' if case[0] == 'json' else 'DataFrameCache') + '.save_value',
                          'taskchain.cache.' + ('JsonCache' if case[0] == 'json' else 'DataFrameCache') + '.load_value']
    return r
