"""C12 — the storage scheme is stable (key derivation and path layout equal the frozen 1.4.0 scheme).

Real code executed: chain construction in parameter mode and name mode, Parameter / ParameterRegistry /
repr_from_instantiation / AutoParameterObject.repr / find_and_instantiate_clazz / search_and_replace_placeholders,
TaskParameterConfig.get_name_for_persistence, Task.path / data_path, Data.run_info_path / log_path over MFS.
Symbolic: every persisted parameter value (strings of unbounded length, unbounded integers, booleans; leaves of lists
and mappings and mapping keys; arguments of parameter objects; values substituted for placeholders).
Oracle: ref/keyscheme.py + ref/evaluator.py (own implementation of the documented scheme); the query
"key_real != key_frozen" must be unsat on every path.  sha256 is the uninterpreted injective H; a second group of cases
runs boundary values through the real hashlib.
"""
import z3

from sx import explore, driver, instr
from sx.sym import Sym, SymStr, to_bool_term, has_sym, SxUnsupported
from checks import keylib
from ref import family, evaluator, keyscheme as KS
from ref.family import P, par, inp

PROPERTY = 'C12'
FUNCTIONS = ['taskchain.chain', 'taskchain.parameter', 'taskchain.utils.clazz', 'taskchain.utils.data',
             'taskchain.task.Task', 'taskchain.task.MetaTask', 'taskchain.data.Data', 'taskchain.data.FileData',
             'taskchain.data.DirData', 'taskchain.config.Config']
EXPLANATION = ('Symbolic execution of real chain construction with every persisted parameter value an SMT variable; '
               'each task key (a term over the uninterpreted injective hash H) is compared by cvc5/z3 with the key of '
               'the frozen 1.4.0 scheme re-implemented in /verif/ref; unsat = same key for every value. Path layout, '
               'run-info and log paths are compared component-wise on the model file system. A boundary pool of '
               'concrete values (floats, unicode, quotes, backslashes, newlines) goes through the real hashlib.')
ASSUMPTIONS = ['sha256[:32] modelled as uninterpreted injective function H (collision freedom on the explored inputs)',
               "symbolic strings passed to Python's repr() (Path parameters, AutoParameterObject arguments) are "
               'printable without backslash (repr() escaping is not modelled); such strings are covered by the '
               'concrete boundary pool instead',
               'mapping keys are distinct strings different from "class"',
               'floats only from the concrete boundary pool (no float->decimal theory)']
OUTSIDE = ['FigureData, H5Data (C-level file access)', 'value trees deeper than 3', 'pipelines other than the family']
REACH = ['key', 'layout', 'namemode:layout', 'pool:key']

from ref.keyvalues import KINDS, OBJS, PIPES
NAMESPACES = [None, 'ns', 'a::b']


def bounds(tier):
    return {'pipelines': sorted(PIPES), 'namespaces': NAMESPACES, 'value_tree_depth': 2 if tier == 'quick' else 3,
            'string_length': 'unbounded', 'integers': 'unbounded', 'pool_values': len(POOL)}


def cases(tier):
    out = []
    for p in PIPES:
        for ns in NAMESPACES:
            out.append(('sym', p, ns))
    out.append(('namemode', None, None))
    out.append(('crossns', None, None))
    out.append(('crossns', 'outer', None))
    for i in range(0, len(POOL), 4):
        out.append(('pool', i, None))
    if tier == 'thorough':
        out.append(('sym-deep', 'kinds', None))
    return out


POOL = ['', 'a', "it's", 'say "hi"', "both ' and \"", 'back\\slash', 'new\nline', 'tab\there', 'ünïcödé', '日本語',
        '\U0001f600', "', '", '{A}', '###', '$$$', 'x=1', 0, 1, -1, True, False, None, 2 ** 63, -2 ** 63, 10 ** 30,
        1.0, 0.1, -0.0, 1e308, 1e-320, float('inf'), [], {}, [[]], [1, 'a', None], {'k': [1, 2]}, {'b': 1, 'a': 2},
        ['a', 'b'], ["a', 'b"], {'a': {'b': {'c': 1}}}, 'ends with quote\'', "'", '"']


def sym_values(ctx, pipe, deep=False):
    """Symbolic config data for pipeline `pipe`; returns (config data, data for the reference, global_vars)."""
    S = (lambda n, **k: ctx.sym_str(n, **dict({'exclude': '{}\n'}, **k))) if pipe == 'kinds' else \
        (lambda n, **k: ctx.sym_str(n, **k))      # noqa (with global_vars every config string meets the placeholder regex)
    printable = dict(exclude='\\\n\r\t\x00\x7f{}')
    if pipe == 'chain3':
        return {'x': S('x'), 'y': ctx.sym_int('y')}, None, None
    if pipe == 'diamond':
        return {'x': S('x'), 'right_value': ctx.sym_int('r'), 'l': S('l'), 'verbose': ctx.sym_bool('v'),
                's': ctx.sym_bool('s')}, None, None
    if pipe == 'optional':
        return {'x': ctx.sym_int('x'), 'e': S('e')}, None, None
    if pipe == 'pattern':
        return {'x': S('x'), 'y': ctx.sym_int('y'), 'z': ctx.sym_bool('z')}, None, None
    if pipe == 'odd':
        return {'x': S('x'), 'y': ctx.sym_int('y')}, None, None
    if pipe == 'kinds':
        k1 = S('k1')
        ctx.assume(k1 != 'class')
        ctx.assume(k1 != 'zz')
        inner = [S('l0'), ctx.sym_int('l1'), ctx.sym_bool('l2'), None]
        if deep:
            k2 = S('k2')
            ctx.assume(k2 != 'class')
            ctx.assume(k2 != k1)
            inner.append(keylib.SymItems([(k2, [S('d0')])]))
        vals = {'s': S('s'), 'i': ctx.sym_int('i'), 'b': ctx.sym_bool('b'), 'lst': inner,
                'dct': keylib.SymItems([(k1, S('dv')), ('zz', ctx.sym_int('di'))]) if True else None,
                'pth': '{ROOT}/p', 'tpl': '{ROOT}/sub/{MISSING}', 'dd': S('dd'), 'ig': S('ig'),
                'name_conf': ctx.sym_int('nc'), 'z': 2.5}
        gv = {'ROOT': S('root', exclude='{}\n')}
        return vals, None, gv
    if pipe == 'objs':
        from ref import pobjects as PO
        a, b = S('ca', **printable), ctx.sym_int('cb')
        size, tags0, rate = ctx.sym_int('size'), S('tag0', **printable), ctx.sym_int('rate')
        vals = {
            'custom': PO.Custom(a, b),
            'auto': PO.Sized(size, tags=[tags0, PO.Marker(), 3], rate=rate, verbose=ctx.sym_bool('vb'), extra=PO.Marker()),
            'cdef': {'class': 'ref.pobjects.Sized', 'args': [ctx.sym_int('dsize')],
                     'kwargs': {'tags': {'k': ctx.sym_int('dtag')}, 'verbose': True}},
            'plain': {'class': 'ref.pobjects.Plain', 'args': [S('pa'), ctx.sym_int('pi')], 'kwargs': {'kw': S('pk')}},
            'objs': [PO.Custom(1, 2), {'class': 'ref.pobjects.Custom', 'args': [ctx.sym_int('oa')]}],
            'loc': PO.Loc(ctx.sym_int('locroot')),
        }
        return vals, None, None
    raise ValueError(pipe)


def ref_values(ctx, pipe, vals, gv):
    from sx.instr import SX
    from ref import keyvalues
    return keyvalues.ref_values(pipe, vals, lambda v: SX.b_repr(v) if has_sym(v) else repr(v))


Fixed = __import__('ref.keyvalues', fromlist=['Fixed']).Fixed


def run_case(case, tier):
    kind, a, b = case
    keylib.setup(full=True, hash_mode='uf' if kind.startswith('sym') else 'auto')
    import copy
    if kind.startswith('sym'):
        pipe, ns = a, b
        spec = PIPES[pipe]

        def harness(ctx):
            fs = keylib.fresh_fs()
            classes = family.make_pipeline(spec)
            vals, _, gv = sym_values(ctx, pipe, deep=(kind == 'sym-deep'))
            refv = ref_values(ctx, pipe, vals, gv)
            cfg_vals = dict(vals)
            dvals, dgv = describe(vals), describe(gv)     # (before the library instantiates objects in place)
            try:
                ch = keylib.chain(keylib.config(fs, classes.values(), cfg_vals, namespace=ns, global_vars=gv))
            except AssertionError as e:
                tb = e.__traceback__
                while tb.tb_next is not None:
                    tb = tb.tb_next
                if tb.tb_frame.f_code.co_name == 'repr' and tb.tb_frame.f_code.co_filename.endswith('parameter.py'):
                    return          # AutoParameterObject refuses reprs containing 'object at 0x': construction fails
                raise
            ev = evaluator.evaluate(spec, refv, namespace=ns)
            if not ctx.check_concrete(set(ch.tasks) == set(ev), 'tasks', {'pipe': pipe, 'ns': ns, 'got': sorted(ch.tasks),
                                                                         'vals': dvals, 'gv': dgv}):
                return
            for f, info in ev.items():
                t = ch.tasks[f]
                k = t.name_for_persistence
                ctx.check(k == info['key'], 'key', {'pipe': pipe, 'ns': ns, 'task': f, 'vals': dvals, 'gv': dgv})
                ctx.observe('key:' + f, k)
                if info['data'] == 'mem':
                    continue
                d, fname = KS.layout(('data',), info['group'], info['name'], info['key'], info['data'])
                dp = t.data_path
                dwv = t._data_without_value
                ok = z3.And(z3.BoolVal(tuple(dp.parts[:-1]) == d), to_bool_term(dp.name == fname),
                            z3.BoolVal(tuple(dwv.run_info_path.parts[:-1]) == d),
                            to_bool_term(dwv.run_info_path.name == info['key'] + '.run_info.yaml'),
                            to_bool_term(dwv.log_path.name == info['key'] + '.log'),
                            z3.BoolVal(tuple(t.path.parts) == d))
                ctx.check(ok, 'layout', {'pipe': pipe, 'ns': ns, 'task': f, 'vals': dvals, 'gv': dgv,
                                         'dir': list(dp.parts[:-1])})
        ctx = explore.explore(harness, max_paths=3000, concolic=explore.concolic_rerun,
                              decide_timeout_ms=30000 if tier == 'quick' else 90000)
        return driver.result_from_ctx(ctx)

    if kind == 'crossns':
        keylib.setup(full=True, hash_mode='uf')
        outer = a

        def harness(ctx):
            from taskchain import Config
            fs = keylib.fresh_fs()
            ds = [P('Dataset', params=[par('size')])]
            mg = [P('Merge', inputs=[inp('train::dataset', 'name'), inp('valid::dataset', 'name')], params=[par('m', default=0)]),
                  P('Report', inputs=[inp('Merge')])]
            s1, s2 = ctx.sym_int('s1'), ctx.sym_int('s2')
            dcl = family.make_pipeline(ds)
            mcl = family.make_pipeline(mg)
            base = fs.path('/data')
            ct = Config(base, name='tr', namespace='train', data={'tasks': list(dcl.values()), 'size': s1})
            cv = Config(base, name='va', namespace='valid', data={'tasks': list(dcl.values()), 'size': s2})
            main = Config(base, name='main', namespace=outer, data={'tasks': list(mcl.values()), 'uses': [ct, cv]})
            ch = keylib.chain(main)
            pre = f'{outer}::' if outer else ''
            kd1 = KS.digest32(KS.key_text([{'name': 'size', 'value': s1}], {}))
            kd2 = KS.digest32(KS.key_text([{'name': 'size', 'value': s2}], {}))
            km = KS.digest32(KS.key_text([{'name': 'm', 'value': 0}], {'train::dataset': kd1, 'valid::dataset': kd2}))
            kr = KS.digest32(KS.key_text([], {'merge': km}))
            exp = {pre + 'train::dataset': kd1, pre + 'valid::dataset': kd2, pre + 'merge': km, pre + 'report': kr}
            ctx.check_concrete(set(ch.tasks) == set(exp), 'tasks', {'crossns': True, 'outer': outer, 'got': sorted(ch.tasks)})
            for f, k in exp.items():
                ctx.check(ch.tasks[f].name_for_persistence == k, 'key',
                          {'crossns': True, 'outer': outer, 'task': f, 'sizes': [s1, s2]})
        ctx = explore.explore(harness, max_paths=200, concolic=None)
        return driver.result_from_ctx(ctx)

    if kind == 'namemode':
        names = ['cfg', 'model.v2', 'a.b.c', 'x-1', 'trailing.']

        def harness(ctx):
            fs = keylib.fresh_fs()
            spec = [P('Filed', group='g1:g2', params=[par('x')]), P('Dired', data='dir', inputs=[inp('Filed')]),
                    P('Gen', data='gen', params=[par('x')])]
            classes = family.make_pipeline(spec)
            name = names[ctx.choice('name', len(names))]
            ns = [None, 'ns'][ctx.choice('ns', 2)]
            ch = keylib.chain(keylib.config(fs, classes.values(), {'x': 1}, name=name, namespace=ns),
                              parameter_mode=False)
            pre = f'{ns}::' if ns else ''
            exp = {pre + 'g1:g2:filed': (('data', 'g1', 'g2', 'filed'), name + '.json'),
                   pre + 'dired': (('data', 'dired'), name), pre + 'gen': (('data', 'gen'), name + '.jsonl')}
            for f, (d, fn) in exp.items():
                t = ch.tasks[f]
                dwv = t._data_without_value
                stem = __import__('pathlib').PurePosixPath(fn).stem     # 1.4.0 names the records after the stem
                ok = (tuple(t.data_path.parts) == d + (fn,) and t.name_for_persistence == name
                      and tuple(dwv.run_info_path.parts) == d + (stem + '.run_info.yaml',)
                      and tuple(dwv.log_path.parts) == d + (stem + '.log',))
                ctx.check_concrete(ok, 'namemode:layout', {'mode': 'name', 'name': name, 'ns': ns, 'task': f,
                                                            'got': list(t.data_path.parts)})
        ctx = explore.explore(harness, max_paths=200)
        return driver.result_from_ctx(ctx)

    if kind == 'pool':
        lo = a
        vals_pool = POOL[lo:lo + 4]

        def harness(ctx):
            fs = keylib.fresh_fs()
            spec = [P('Holder', params=[par('v'), par('w', default='d', dpdv=True)]),
                    P('Next', inputs=[inp('Holder')], params=[par('u', default=None)])]
            classes = family.make_pipeline(spec)
            v = vals_pool[ctx.choice('v', len(vals_pool))]
            wrap = ctx.choice('wrap', 3)
            val = copy.deepcopy(v) if wrap == 0 else ([copy.deepcopy(v), 1] if wrap == 1 else {'k': copy.deepcopy(v)})
            vals = {'v': val, 'u': copy.deepcopy(v)}
            ch = keylib.chain(keylib.config(fs, classes.values(), copy.deepcopy(vals)), shared={})
            ev = evaluator.evaluate(spec, vals)
            for f, info in ev.items():
                t = ch.tasks[f]
                ok = t.name_for_persistence == info['key'] and t.data_path.name == info['key'] + '.json'
                ctx.check_concrete(ok, 'pool:key', {'pool': True, 'task': f, 'vals': repr(vals),
                                                    'got': t.name_for_persistence, 'exp': info['key'],
                                                    'text': info['key_text']})
        ctx = explore.explore(harness, max_paths=200)
        return driver.result_from_ctx(ctx)
    raise ValueError(kind)


def describe(v):
    """JSON-able description of a value tree that may hold symbolic leaves (concretised by the model later)."""
    if v is None or isinstance(v, (Sym, str, int, float, bool)):
        return v
    if isinstance(v, keylib.SymItems):
        return {'__items__': [[describe(k), describe(x)] for k, x in v.pairs]}
    if isinstance(v, dict):
        return {str(k): describe(x) for k, x in v.items()}
    if isinstance(v, (list, tuple)):
        return [describe(x) for x in v]
    if hasattr(v, '__dict__'):
        return {'__obj__': type(v).__name__, 'attrs': {k: describe(x) for k, x in vars(v).items()
                                                       if not k.startswith('_taskchain')}}
    return repr(v)


def replay_spec(v):
    return v['info']


def replay_script(spec):
    return r'''
import sys, json, warnings, tempfile, shutil, pathlib, copy
warnings.filterwarnings('ignore')
spec = json.loads(sys.argv[1])
from taskchain import Config, Chain
from ref import family, evaluator, keyscheme as KS
from ref import pobjects as PO
from checks import c12_replay as R
sys.exit(3 if R.main(spec) else 0)
'''
