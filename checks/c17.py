"""C17 — parallel_map equals map, whatever the scheduling.

Real code executed: both parallel_map implementations (utils.threading and utils.iter) incl. their async `_run`, the
chunk loop, sorted(...), and `chunked`, under a synchronous stand-in for the event loop whose `as_completed` yields the
futures in a SYMBOLIC permutation; a future runs `f` exactly when it is scheduled.  Outputs of f are opaque symbolic
values, the raising element, input length, chunk size, thread count and `sort` are symbolic choices; `chunked` also
runs with a symbolic integer chunk size.
"""
import z3

from sx import explore, driver, instr, replay as _rp
from sx.sym import Sym, to_bool_term
from checks import keylib
from checks.c01 import value_eq

PROPERTY = 'C17'
FUNCTIONS = ['taskchain.utils.threading.parallel_map', 'taskchain.utils.iter.parallel_map', 'taskchain.utils.iter.chunked',
             'taskchain.utils.threading.parallel_starmap']
EXPLANATION = ('Symbolic execution of the real parallel_map functions under a stub event loop: the completion order '
               'of the workers within each chunk is a symbolic permutation, outputs are opaque SMT values; on every '
               'path (= every schedule within the bounds) the result list is compared term by term with the '
               'sequential map, calls are counted and exception propagation is checked. chunked is additionally '
               'executed with the chunk size as an unbounded symbolic integer.')
ASSUMPTIONS = ['event loop / executor stand-in: a future runs f when it is first scheduled or awaited; exceptions are '
               're-raised at await (asyncio semantics)', 'real thread interleavings inside f are not modelled (f is opaque)']
OUTSIDE = ['inputs longer than 5 (quick) / 7 (thorough)', 'chunks larger than 4', 'behaviour of the real thread pool '
           'after an exception (remaining workers keep running in the background)']
REACH = ['equals-map', 'exactly-once', 'exception-propagates', 'chunked']


class Boom(Exception):
    pass


class Fut:
    def __init__(self, fn, args):
        self.fn, self.args = fn, args
        self.state = None

    def run(self):
        if self.state is None:
            try:
                self.state = ('ok', self.fn(*self.args))
            except Exception as e:   # noqa
                self.state = ('exc', e)

    def __await__(self):
        self.run()
        if self.state[0] == 'exc':
            raise self.state[1]
        return self.state[1]
        yield


class Loop:
    def run_in_executor(self, executor, fn, *args):
        return Fut(fn, args)

    def run_until_complete(self, coro):
        try:
            coro.send(None)
        except StopIteration as s:
            return s.value
        raise RuntimeError('coroutine did not finish synchronously')


class Executor:
    def __init__(self, *a, **k):
        pass

    def __enter__(self):
        return self

    def __exit__(self, *a):
        return False


def install_stubs(mod, ctx, tag):
    import types
    loop = Loop()
    counter = [0]

    def as_completed(futs):
        futs = list(futs)
        counter[0] += 1
        rest = list(range(len(futs)))
        order = []
        k = 0
        while len(rest) > 1:
            i = ctx.choice(f'{tag}_perm{counter[0]}_{k}', len(rest))
            order.append(rest.pop(i))
            k += 1
        order += rest
        out = []
        for i in order:
            futs[i].run()          # completes now; the awaiting code sees them in this order
            out.append(futs[i])
        return out
    mod.asyncio = types.SimpleNamespace(get_event_loop=lambda: loop, as_completed=as_completed)
    mod.concurrent = types.SimpleNamespace(futures=types.SimpleNamespace(ThreadPoolExecutor=Executor))


def bounds(tier):
    return {'input_length': '0-4' if tier == 'quick' else '0-6', 'chunk_size': '1-3', 'threads': [1, 2, 3],
            'completion_orders': 'all permutations within a chunk', 'raising_element': 'none or any'}


def cases(tier):
    out = []
    nmax = 4 if tier == 'quick' else 6
    for impl in ('threading', 'iter'):
        for n in range(nmax + 1):
            out.append((impl, n))
    out.append(('chunked', 0))
    out.append(('starmap', 3))
    return out


def make_harness(case, tier):
    impl, n = case
    keylib.setup(full=True, hash_mode='auto')

    def harness(ctx):
        if impl == 'chunked':
            from taskchain.utils.iter import chunked
            ln = ctx.choice('len', 8)
            # the chunk size: any integer >= 1 (symbolic), or one of 1..3 as a plain int
            size = (1 + ctx.choice('size_concrete', 3)) if ctx.flag('plain_int_size') else ctx.sym_int('size', 1, None)
            xs = [ctx.sym_val(f'x{i}') for i in range(ln)]
            import collections
            form = ctx.choice('iterable', 4)
            src = [iter(xs), list(xs), tuple(xs), collections.deque(xs)][form]
            try:
                chunks = list(chunked(src, size))
            except Exception as e:
                ctx.check_concrete(False, 'chunked', {'len': ln, 'size': size, 'iterable': type(src).__name__,
                                                      'error': f'{type(e).__name__}: {e}'[:150]})
                return
            flat = [x for c in chunks for x in c]
            info = {'len': ln, 'size': size, 'chunk_lengths': [len(c) for c in chunks]}
            ctx.check_concrete(len(flat) == ln and all(a is b for a, b in zip(flat, xs)), 'chunked', dict(info, what='order'))
            conds = [z3.BoolVal(all(len(c) > 0 for c in chunks))]
            for c in chunks[:-1]:
                conds.append(size.t == len(c) if isinstance(size, Sym) else z3.BoolVal(size == len(c)))
            if chunks:
                conds.append((size.t >= len(chunks[-1])) if isinstance(size, Sym) else z3.BoolVal(size >= len(chunks[-1])))
            ctx.check(z3.And(conds), 'chunked', dict(info, what='sizes'))
            return
        if impl == 'starmap':
            import taskchain.utils.threading as T
            install_stubs(T, ctx, 'sm')
            out = [ctx.sym_val(f'o{i}') for i in range(n)]
            calls = []

            def f2(a, b):
                calls.append((a, b))
                return out[a]
            res = T.parallel_starmap(f2, [(i, i + 10) for i in range(n)], threads=2, use_tqdm=False, chunksize=2)
            ctx.check_concrete(len(res) == n and all(r is o for r, o in zip(res, out)) and sorted(calls) == [(i, i + 10) for i in range(n)],
                               'equals-map', {'impl': 'parallel_starmap', 'n': n})
            return
        if impl == 'threading':
            import taskchain.utils.threading as M
        else:
            import taskchain.utils.iter as M
        install_stubs(M, ctx, impl)
        threads = [1, 2, 3][ctx.choice('threads', 3)]
        out = [ctx.sym_val(f'o{i}') for i in range(n)]
        bad = ctx.choice('raises', n + 1) if n else 0      # index of the raising element, n = none
        stopit = bad < n and ctx.flag('raises_StopIteration')
        calls = []

        def f(i):
            calls.append(i)
            if i == bad and bad < n:
                raise (StopIteration(i) if stopit else Boom(i))
            return out[i]
        kw = {}
        sort = True
        if impl == 'threading':
            kw['chunksize'] = 1 + ctx.choice('chunksize', 3)
            kw['use_tqdm'] = False
            sort = not ctx.flag('nosort')
            kw['sort'] = sort
            xs = list(range(n)) if ctx.flag('as_list') else iter(range(n))
        else:
            xs = list(range(n))
        info = {'impl': impl, 'n': n, 'threads': threads, 'raises': bad if bad < n else None, 'kw': {k: v for k, v in kw.items()}}
        try:
            res = M.parallel_map(f, xs, threads=threads, **kw)
            outcome = 'ret'
        except (Boom, StopIteration) as e:
            res, outcome = None, 'boom'
        except RuntimeError as e:
            # PEP 479: a StopIteration escaping a generator / coroutine frame surfaces as RuntimeError -- still an error
            res, outcome = None, 'boom' if stopit else 'runtime-error'
        if bad < n:
            ctx.check_concrete(outcome == 'boom', 'exception-propagates', dict(info, outcome=outcome))
            ctx.check_concrete(len(calls) == len(set(calls)), 'exactly-once', dict(info, calls=calls))
            return
        ctx.check_concrete(outcome == 'ret' and sorted(calls) == list(range(n)), 'exactly-once', dict(info, calls=calls))
        if sort:
            ctx.check_concrete(len(res) == n and all(r is o for r, o in zip(res, out)), 'equals-map',
                               dict(info, got=[next((j for j, o in enumerate(out) if r is o), None) for r in res]))
        else:
            cs = kw['chunksize']
            ok = len(res) == n
            for a in range(0, n, cs):
                ok = ok and sorted(id(r) for r in res[a:a + cs]) == sorted(id(o) for o in out[a:a + cs])
            ctx.check_concrete(ok, 'equals-map', dict(info, unsorted=True,
                                                      got=[next((j for j, o in enumerate(out) if r is o), None) for r in res]))
    return harness


def run_case(case, tier):
    ctx = explore.explore(make_harness(case, tier), max_paths=(100000 if tier == 'quick' else 4000000), time_budget_s=(400 if tier == 'quick' else 3600), decide_timeout_ms=20000)
    return driver.result_from_ctx(ctx)
