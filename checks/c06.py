"""C06 — stored values round-trip exactly.

What the solver decides and what it does not: the bytes are produced and parsed by orjson / numpy / pickle (C code, no
encoding within reach).  (a) taskchain's own layer around the serialisers -- Data wrappers, json-lines framing,
value/set_value, truthiness handling, listing order -- is executed with OPAQUE symbolic payloads (uninterpreted sort
with symbolic truthiness) under the serialiser contract of DESIGN 4.2: the loaded term must be the returned term.
(b) a boundary pool of concrete values per storable domain goes through the REAL serialisers into the model file
system (pool element and wrapping by symbolic choice): computing chain's value == run's value == fresh chain's value,
with element types, dtypes, shapes, order; loading changes no stored file; an overwritten result holds only the new value.
"""
import z3

from sx import explore, driver, replay as _rp
from sx.sym import Sym
from checks import hist, keylib
from checks.c01 import value_eq
from ref import family
from ref.family import P, par, inp

PROPERTY = 'C06'
FUNCTIONS = ['taskchain.data', 'taskchain.utils.io', 'taskchain.utils.json', 'taskchain.task.Task.data']
EXPLANATION = ('(a) symbolic execution of the real Data wrappers and json-lines framing with opaque payloads of an '
               'uninterpreted sort (symbolic truthiness), serialisers replaced by an uninterpreted inverse pair: the '
               'query "loaded term != returned term" is decided per path. (b) boundary pool values per storable '
               'domain through the real orjson / numpy / pandas into the model file system, enumerated by symbolic '
               'choice; equality includes element types, dtypes, shapes, order, index and columns.')
ASSUMPTIONS = ['serialiser contract for opaque payloads: loads(dumps(v)) = v; no raw newline inside dumps(v)',
               'fidelity of orjson / numpy / pickle themselves is only exercised on the boundary pool, not claimed '
               'for all values', 'file system = MFS model; directory listing order lexicographic or reversed']
OUTSIDE = ['serialiser fidelity beyond the pool', 'FigureData, H5Data', 'values outside the documented domains']
REACH = ['loaded=returned', 'loaded=returned-symbolic', 'load-writes-nothing', 'overwrite-leaves-only-new']


def pool():
    import numpy as np
    import pandas as pd
    J = [0, 1, -1, 2 ** 63 - 1, -2 ** 63, 1.5, -0.0, 1e308, 5e-324, '', 'a', 'ünï', '\U0001f600', ' ', 'a\nb',
         [], {}, [[]], {'k': []}, [1, 1.0, True, None, 'x'], {'a': {'b': {'c': [1, {'d': None}]}}}, False, True,
         {'': 0}, [0.1, 0.2, 0.30000000000000004], {'z': 1, 'a': 2}, 'x' * 5000]
    A = [np.array(5), np.array(2.5), np.array(True), np.array('s'), np.array([]), np.array([[1, 2], [3, 4]], dtype='int8'),
         np.arange(6, dtype='float32').reshape(1, 2, 3), np.array([True, False]), np.array(['a', 'bcd']),
         np.array([1, 2, 3], dtype='uint64'), np.asfortranarray(np.arange(6).reshape(2, 3)), np.arange(10)[::2],
         np.array([1 + 2j]), np.zeros((0, 3)), np.array([np.nan, np.inf]), np.array([1, 2], dtype='>i4')]
    D = [pd.DataFrame({'a': [1, 2], 'b': ['x', 'y']}), pd.DataFrame(), pd.DataFrame({'a': [1.5]}, index=['r']),
         pd.DataFrame({('m', 'n'): [1]}), pd.DataFrame({'a': [1, 2]}, index=pd.Index([5, 3], name='idx')),
         pd.DataFrame({1: [True], 'z': [None]}), pd.Series([1, 2, 3], name='s'), pd.Series([], dtype='float64'),
         pd.Series(['a'], index=[(1, 2)]), pd.DataFrame({'t': pd.to_datetime(['2020-01-01'])}),
         pd.DataFrame({'c': pd.Categorical(['x', 'y', 'x'])})]
    G = [list(range(5000)), [{'i': i} for i in range(4100)], [], [0], ['a\u2028b', 'c\x85d\u2029e', '\x0b\x0c\x1c'], [{'a': 1}, [], 'x', None, 1.5], [{'k': i} for i in range(12)], ['a\nb', ' '], [[[]]], [0, False, '', {}]]
    L = [[], [np.array(1)], [np.arange(i) for i in range(12)], [np.array([[1.5]]), np.array(['s'])]]
    F = [{'out.json': '{}'}, {'a.txt': '', 'sub/b.txt': 'x\ny', 'sub/deep/c.bin': '\x00\x01'}, {}]
    return {'json': J, 'npy': A, 'pd': D, 'gen': G, 'lazy': G, 'listnpy': L, 'dir': F, 'cont': F}


def bounds(tier):
    p = pool()
    return {'pool_sizes': {k: len(v) for k, v in p.items()}, 'symbolic_payload_lists': '0-3' if tier == 'quick' else '0-6',
            'wrappings_json': ['bare (if a JSON type)', 'in list', 'in mapping']}


def cases(tier):
    out = []
    p = pool()
    for kind, vals in p.items():
        for lo in range(0, len(vals), 4):
            out.append(('pool', kind, lo))
    for kind in ('json', 'gen', 'lazy', 'mem'):
        out.append(('sym', kind, 3 if tier == 'quick' else 6))
    out.append(('order', 'listnpy', 0))
    return out


def same(a, b):
    """exact equality incl. element types, dtypes, shapes, order."""
    import numpy as np
    import pandas as pd
    if isinstance(a, np.ndarray) or isinstance(b, np.ndarray):
        return (isinstance(a, np.ndarray) and isinstance(b, np.ndarray) and a.dtype == b.dtype and a.shape == b.shape
                and bool(np.array_equal(a, b, equal_nan=a.dtype.kind in 'fc')))
    if isinstance(a, (pd.DataFrame, pd.Series)) or isinstance(b, (pd.DataFrame, pd.Series)):
        if type(a) is not type(b):
            return False
        try:
            (pd.testing.assert_frame_equal if isinstance(a, pd.DataFrame) else pd.testing.assert_series_equal)(
                a, b, check_exact=True, check_names=True)
            return True
        except AssertionError:
            return False
    if type(a) is not type(b):
        return False
    if isinstance(a, dict):
        return set(a.keys()) == set(b.keys()) and all(same(a[k], b[k]) for k in a)    # mappings are unordered
    if isinstance(a, (list, tuple)):
        return len(a) == len(b) and all(same(x, y) for x, y in zip(a, b))
    if isinstance(a, float):
        import math
        return (a == b and math.copysign(1, a) == math.copysign(1, b)) or (a != a and b != b)
    return a == b


def dict_same(a, b):
    return set(a) == set(b) and all(same(a[k], b[k]) for k in a)


def read_dir(p):
    out = {}

    def walk(q, pre):
        for c in sorted(q.iterdir(), key=lambda x: str(x.name)):
            if c.is_dir():
                walk(c, pre + c.name + '/')
            else:
                with c.open() as f:
                    out[pre + c.name] = f.read()
    walk(p, '')
    return out


def visible(kind, v):
    if kind in ('dir', 'cont'):
        return read_dir(v)
    if kind == 'lazy':
        return list(v())
    return v


def make_harness(case, tier):
    mode, kind, arg = case
    hist.setup(full=True)
    if mode == 'pool':
        return pool_harness(kind, arg)
    if mode == 'order':
        return order_harness()
    return sym_harness(kind, arg)


def pool_harness(kind, lo):
    vals = pool()[kind][lo:lo + 4]

    def harness(ctx):
        import copy
        spec = [P('Store', const=1, data=kind), P('Reader', inputs=[inp('Store')], data='mem')]
        world = hist.World(spec, [{}])
        fs = world.fs
        i = ctx.choice('i', len(vals))
        v = copy.deepcopy(vals[i])
        wrap = 0
        if kind == 'json':
            wrap = ctx.choice('wrap', 3)
            if wrap == 0 and not isinstance(v, (str, int, float, bool, dict, list)):
                wrap = 1
            v = v if wrap == 0 else ([v, v] if wrap == 1 else {'k': v, 'j': [v]})
        expected = copy.deepcopy(v)
        family.CONST.clear()
        family.CONST['Store'] = v
        info = {'kind': kind, 'value': repr(expected)[:300], 'wrap': wrap}
        if kind == 'json' and not isinstance(v, (str, int, float, bool, dict, list)):
            return
        k = world.build(0)
        t = world.task(k, 'store')
        if kind in ('json', 'pd'):
            # the declared data type of the task follows the value's own type
            type(t).run.__annotations__['return'] = type(v)
            world.drop_chains()
            k = world.build(0)
            t = world.task(k, 'store')
        got1 = visible(kind, t.value)
        exp_vis = expected if kind not in ('gen', 'lazy') else list(expected)
        eq = dict_same if kind in ('dir', 'cont') else same
        ctx.check_concrete(eq(got1, exp_vis), 'loaded=returned', dict(info, stage='computing chain', got=repr(got1)[:300]))
        before = result_snapshot(world)
        world.drop_chains()
        k2 = world.build(0)
        t2 = world.task(k2, 'store')
        mark = world.mark()
        try:
            got2 = visible(kind, t2.value)
            err = None
        except Exception as e:       # a stored value that cannot be loaded back is a round-trip failure, not a crash
            got2, err = None, f'{type(e).__name__}: {e}'[:160]
        ctx.check_concrete(err is None and eq(got2, exp_vis) and not world.runs_since(mark), 'loaded=returned',
                           dict(info, stage='fresh chain', got=repr(got2)[:300], error=err))
        if err is not None:
            return
        after = result_snapshot(world)
        ctx.check_concrete(before == after, 'load-writes-nothing',
                           dict(info, changed=sorted(k for k in set(before) | set(after) if before.get(k) != after.get(k))))
        # ---- overwrite with another (smaller) value of the domain: only the new value may be found afterwards
        j = ctx.choice('j', len(vals))
        w = copy.deepcopy(vals[j])
        if kind == 'json':
            w = w if wrap == 0 else ([w, w] if wrap == 1 else {'k': w, 'j': [w]})
        if type(w) is not type(v):
            return
        family.CONST['Store'] = w
        exp2 = copy.deepcopy(w) if kind not in ('gen', 'lazy') else list(copy.deepcopy(w))
        t2.force()
        try:
            visible(kind, t2.value)
            world.drop_chains()
            k3 = world.build(0)
            got3 = visible(kind, world.task(k3, 'store').value)
            err = None
        except Exception as e:
            got3, err = None, f'{type(e).__name__}: {e}'[:160]
        ctx.check_concrete(err is None and eq(got3, exp2), 'overwrite-leaves-only-new',
                           dict(info, new_value=repr(exp2)[:300], got=repr(got3)[:300], error=err))
    return harness


def result_snapshot(world):
    from checks.c20 import snapshot
    s = snapshot(world.fs, '/data')
    return {k: v for k, v in s.items() if not k.endswith('_tmp')}


def order_harness():
    def harness(ctx):
        import numpy as np
        spec = [P('Store', const=1, data='listnpy')]
        world = hist.World(spec, [{}])
        n = 9 + ctx.choice('n', 5)
        arrays = [np.array([i, i * i]) for i in range(n)]
        family.CONST.clear()
        family.CONST['Store'] = arrays
        k = world.build(0)
        world.task(k, 'store').value
        world.drop_chains()
        if not _rp.MODE['replay']:
            world.fs.reverse_listing = ctx.flag('reverse_listing')
        k2 = world.build(0)
        got = world.task(k2, 'store').value
        ctx.check_concrete(len(got) == n and all(same(a, b) for a, b in zip(got, arrays)), 'loaded=returned',
                           {'kind': 'listnpy', 'n': n, 'got_first_elements': [int(a[0]) for a in got]})
    return harness


def sym_harness(kind, maxlen):
    def harness(ctx):
        spec = [P('Store', const=1, data=kind if kind != 'mem' else 'mem')]
        world = hist.World(spec, [{}])
        if kind in ('gen', 'lazy'):
            n = ctx.choice('n', maxlen + 1)
            v = [ctx.sym_val(f'v{i}') for i in range(n)]
        elif kind == 'json':
            shape = ctx.choice('shape', 3)
            a, b = ctx.sym_val('a'), ctx.sym_val('b')
            v = [a, b] if shape == 0 else ({'k': a, 'j': [b]} if shape == 1 else [])
        else:
            v = {'x': ctx.sym_val('a')}
        family.CONST.clear()
        family.CONST['Store'] = v
        info = {'kind': kind, 'shape': repr(type(v)), 'len': len(v)}
        k = world.build(0)
        t = world.task(k, 'store')
        if kind == 'json':
            type(t).run.__annotations__['return'] = type(v)
            world.drop_chains()
            k = world.build(0)
            t = world.task(k, 'store')
        got1 = visible(kind, t.value)
        exp = list(v) if kind in ('gen', 'lazy') else v
        ctx.check(value_eq(got1, exp), 'loaded=returned-symbolic', dict(info, stage='computing chain'))
        if kind == 'mem':
            return
        world.drop_chains()
        k2 = world.build(0)
        mark = world.mark()
        got2 = visible(kind, world.task(k2, 'store').value)
        ctx.check(value_eq(got2, exp), 'loaded=returned-symbolic', dict(info, stage='fresh chain'))
        ctx.check_concrete(not world.runs_since(mark), 'load-writes-nothing', dict(info, ran=True))
    return harness


def run_case(case, tier):
    ctx = explore.explore(make_harness(case, tier), max_paths=(5000 if tier == 'quick' else 200000), time_budget_s=(400 if tier == 'quick' else 3600), decide_timeout_ms=30000)
    return driver.result_from_ctx(ctx)
