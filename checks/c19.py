"""C19 — test helpers compute what the real chain computes.

Real code executed: taskchain.utils.testing.TestChain / MockTask / create_test_task, next to a real Chain whose
upstream tasks return the mocked values.  Symbolic: parameter values and mocked upstream values (opaque payloads,
integers, strings of unbounded length); which optional parts are omitted, how mocks are named (class / string).
Per path the solver is asked for values under which the helper's value differs from the real chain's value.
"""
import z3

from sx import explore, driver, instr, replay as _rp
from sx.sym import Sym, to_bool_term
from checks import keylib
from checks.c01 import value_eq
from checks.c12 import describe
from ref import family
from ref.family import P, par, inp

PROPERTY = 'C19'
FUNCTIONS = ['taskchain.utils.testing', 'taskchain.chain.Chain', 'taskchain.task.Task']
EXPLANATION = ('Symbolic execution of the real TestChain / create_test_task and of a real Chain over the model file '
               'system with parameter and mock values as SMT variables (opaque payloads of an uninterpreted sort, '
               'unbounded integers and strings); per task the query "helper value != real-chain value" is decided by '
               'cvc5/z3. Mocked tasks must never run nor create entries; missing inputs / parameters must be reported '
               'at construction.')
ASSUMPTIONS = ['file system = MFS model', 'the real-chain comparator uses in-memory tasks returning the mocked values']
OUTSIDE = ['task classes outside the family shapes (inputs by class/name, run arguments / registry access, defaults, '
           'parameter objects, chain objects)']
REACH = ['helper=real', 'mocks-never-run', 'missing-reported', 'after-force']

SHAPES = {
    'by-class-registry': [P('Alpha', const=1, data='mem'), P('Beta', const=1, data='mem', group='g'),
                          P('Work', inputs=[inp('Alpha'), inp('Beta')], params=[par('p'), par('q', default=7)])],
    'by-name-args': [P('Alpha', const=1, data='mem'), P('Beta', const=1, data='mem', group='g'),
                     P('Work', inputs=[inp('alpha', 'name'), inp('g:beta', 'name')], params=[par('p'), par('q', default=7)],
                       access='args_inputs')],
    'chain-object': [P('Alpha', const=1, data='mem'),
                     P('Work', inputs=[inp('Alpha')], params=[par('p'), par('scaler')], access='args')],
    'two-levels': [P('Alpha', const=1, data='mem'),
                   P('Mid', inputs=[inp('Alpha')], params=[par('p')], data='dir'),
                   P('Work', inputs=[inp('Mid'), inp('alpha', 'name')], params=[par('q', default=7)])],
}


def bounds(tier):
    return {'task_shapes': sorted(SHAPES), 'values': 'symbolic (opaque payloads, ints, strings)',
            'mock_naming': ['class', 'name'], 'helpers': ['create_test_task', 'TestChain']}


def cases(tier):
    return [(s, helper) for s in SHAPES for helper in ('create_test_task', 'TestChain')]


def _callable_value(*a):
    """a mocked upstream value that happens to be callable (e.g. a scoring function)"""
    return ('called', a)


def make_harness(case, tier):
    shape, helper = case
    keylib.setup(full=True, hash_mode='auto')
    spec = SHAPES[shape]

    def harness(ctx):
        from taskchain.utils.testing import TestChain, create_test_task
        from taskchain import Config, Chain
        from ref import pobjects as PO
        fs = keylib.fresh_fs()
        cl = family.make_pipeline(spec)
        kindA = ctx.choice('alpha_mock', 3)
        mocks = {'Alpha': [ctx.sym_val('ma'), ctx.sym_int('mi'), _callable_value][kindA] if kindA < 2 else _callable_value,
                 'Beta': ctx.sym_str('mb')}
        family.CONST.clear()
        family.CONST.update(mocks)
        params = {'p': ctx.sym_int('p')}
        if ctx.flag('q_given'):
            params['q'] = None if ctx.flag('q_is_None') else ctx.sym_str('q')
        if shape == 'chain-object':
            params['scaler'] = PO.chain_scaler(ctx.sym_int('k'))
        by_name = ctx.flag('mock_by_name')
        tested = [c for n, c in cl.items() if 'const' not in c._spec]
        mocked = [c for n, c in cl.items() if 'const' in c._spec]
        mock_arg = {}
        for c in mocked:
            mock_arg[c.slugname if by_name else c] = mocks[c.__name__]
        info = {'shape': shape, 'helper': helper, 'mock_by_name': by_name, 'params': describe({k: v for k, v in params.items() if k != 'scaler'})}
        del family.RUNLOG[:]
        base = fs.path('/data/helper')
        import copy
        hp = dict(params)
        if shape == 'chain-object':
            hp['scaler'] = PO.chain_scaler(params['scaler'].k)
        if helper == 'create_test_task' and len(tested) == 1:
            t = create_test_task(tested[0], input_tasks=mock_arg, parameters=hp, base_dir=base)
            helper_tasks = {tested[0].slugname: t}
            tc = None
        else:
            tc = TestChain(tested, mock_tasks=mock_arg, parameters=hp, base_dir=base)
            helper_tasks = {c.slugname: tc[c.slugname] for c in tested}
        # the real chain: upstream tasks are in-memory tasks returning the mocked values
        rp = dict(params)
        real = keylib.chain(Config(fs.path('/data/real'), name='test', data=dict(rp, tasks=list(cl.values()))))
        if shape == 'chain-object' and ctx.flag('configure_object_afterwards'):
            # the test configures the parameter object it handed in after the helper was built
            k2 = ctx.sym_int('k2')
            hp['scaler'].k = k2
            params['scaler'].k = k2
            for t in list(helper_tasks.values()):
                t.reset_data() if hasattr(t, 'reset_data') else None
        for sl, t in helper_tasks.items():
            hv = family.norm_input(t.value)
            rv = family.norm_input(real[sl].value)
            ctx.check(value_eq(hv, rv), 'helper=real', dict(info, task=sl))
        # mocked tasks return the supplied value, never run, never persist
        ran = [r[0] for r in family.RUNLOG if r[0] in [c.slugname for c in mocked] and r[1] not in
               [id(real[c.slugname]) for c in mocked]]
        ctx.check_concrete(not ran, 'mocks-never-run', dict(info, ran=ran))
        if tc is not None:
            for c in mocked:
                mv = tc[c.slugname].value
                ctx.check(value_eq(mv, mocks[c.__name__]), 'helper=real', dict(info, task=c.slugname, mock=True))
        names = set()
        if not _rp.MODE['replay']:
            for k in fs.listing(('data', 'helper')):
                names.add(str(k[2]) if len(k) > 2 else '')
        else:
            import os
            names = set(os.listdir(base)) if os.path.isdir(base) else set()
        ctx.check_concrete(not any(c.slugname.split(':')[0] in names for c in mocked), 'mocks-never-run',
                           dict(info, entries=sorted(names)))
        # forcing inside the helper chain and asking again gives the same values
        if tc is not None:
            fm = ctx.flag('force_mock')
            try:
                tc.force([c.slugname for c in mocked] if fm else tested[-1].slugname)
                vals = {sl: family.norm_input(tc[sl].value) for sl in helper_tasks}
                err = None
            except Exception as e:          # the helper chain must keep working after forcing
                vals, err = {}, f'{type(e).__name__}: {e}'[:200]
            ctx.check_concrete(err is None, 'after-force', dict(info, forced='mocks' if fm else 'tested', error=err))
            for sl in vals:
                rv = family.norm_input(real[sl].value)
                ctx.check(value_eq(vals[sl], rv), 'after-force', dict(info, task=sl))
        # a task listed both among the tested tasks and among the mocks is mocked: supplied value, never run
        if mocked and ctx.flag('mock_also_listed'):
            del family.RUNLOG[:]
            both = TestChain([mocked[0]] + tested, mock_tasks=mock_arg, parameters=hp, base_dir=fs.path('/data/both'))
            for sl in helper_tasks:
                hv = family.norm_input(both[sl].value)
                rv = family.norm_input(real[sl].value)
                ctx.check(value_eq(hv, rv), 'helper=real', dict(info, task=sl, mock_also_listed_as_task=True))
            ran = [r[0] for r in family.RUNLOG if r[0] == mocked[0].slugname]
            ctx.check_concrete(not ran, 'mocks-never-run', dict(info, ran=ran, mock_also_listed_as_task=True))
        # a missing input or required parameter is reported when the helper is constructed
        which = ctx.choice('missing', 3)
        if which == 1:
            bad_p = {k: v for k, v in hp.items() if k != 'p'}
            try:
                TestChain(tested, mock_tasks=mock_arg, parameters=bad_p, base_dir=fs.path('/data/bad1'))
                ok = 'p' not in [p['name'] for t in spec for p in t.get('params', []) if 'default' not in p]
            except Exception:
                ok = True
            ctx.check_concrete(ok, 'missing-reported', dict(info, missing='parameter p'))
        elif which == 2:
            some = dict(list(mock_arg.items())[1:])
            try:
                TestChain(tested, mock_tasks=some, parameters=hp, base_dir=fs.path('/data/bad2'))
                ok = False
            except Exception:
                ok = True
            ctx.check_concrete(ok, 'missing-reported', dict(info, missing='first mocked input'))
    return harness


def run_case(case, tier):
    ctx = explore.explore(make_harness(case, tier), max_paths=(3000 if tier == 'quick' else 120000), time_budget_s=(400 if tier == 'quick' else 3600), decide_timeout_ms=30000)
    return driver.result_from_ctx(ctx)
