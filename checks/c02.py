"""C02 — storage location depends only on what goes into the computation.

For each computation-preserving rewriting of a configuration the real chain is built twice (original / rewritten) with
the SAME symbolic parameter values; per task the query  key(original) != key(rewritten)  must be unsat, and the
directory part of the task path must be identical.  One unsat covers every value.
"""
import z3

from sx import explore, driver, instr
from sx.sym import Sym, SymStr, to_bool_term, has_sym
from checks import keylib
from checks.c12 import describe
from checks.c03 import keys_differ
from ref import family
from ref.family import P, par, inp

PROPERTY = 'C02'
FUNCTIONS = ['taskchain.chain', 'taskchain.parameter', 'taskchain.utils.clazz', 'taskchain.utils.data',
             'taskchain.config', 'taskchain.task.Task']
EXPLANATION = ('Symbolic execution of real chain construction for an original and a rewritten configuration sharing '
               'the same symbolic parameter values (strings/integers unbounded); per task the solver is asked for '
               'values under which the two storage keys differ; unsat = the location is invariant under the rewriting '
               'for every value. Rewritings: config rename, namespace mounting (depth 1-2), declaration / task / '
               'mapping-key / kwargs order, ignored and default-valued parameters, config->context moves, '
               'global_vars values under fixed placeholders, absent optional inputs, set iteration order.')
ASSUMPTIONS = ['sha256[:32] modelled as uninterpreted injective function H',
               'interpreter hash randomisation is modelled as a symbolic iteration order of sets',
               'with global_vars in force symbolic strings do not contain braces (placeholder handling is C11)']
OUTSIDE = ['rewritings not listed in the explanation', 'pipelines other than the family members used here']
REACH = ['same-key']
SETORDER = 'C02-set-order'
KWORDER = 'C02-kwargs-order'

SCENARIOS = ['global-vars-str', 'rename', 'namespace', 'decl-order', 'task-order', 'mapkey-order', 'kwargs-order', 'ignored',
             'default-explicit', 'context-global', 'context-ns', 'context-list', 'global-vars', 'global-vars-path',
             'optional-absent', 'set-order', 'uses-order']


def bounds(tier):
    return {'rewritings': SCENARIOS, 'namespace_depth': 2, 'strings': 'unbounded', 'integers': 'unbounded',
            'set_size': 2 if tier == 'quick' else 3}


def cases(tier):
    return [(s, tier) for s in SCENARIOS]


BASE = [
    P('Load', params=[par('path'), par('fmt', default='csv', dpdv=True), par('verbose', default=False, ignore=True)]),
    P('Clean', group='prep', params=[par('thr'), par('opts', default=None)], inputs=[inp('Load')]),
    P('Model', params=[par('lr'), par('layers')], inputs=[inp('prep:clean', 'name'), inp('Load')], data='dir'),
    P('Plain', inputs=[inp('Load')]),
]


SET_SCRIPT = r'''
import sys, json, warnings, tempfile, pathlib, shutil
warnings.filterwarnings('ignore')
a = json.loads(sys.argv[1])
from taskchain import Config, Chain
from ref import family, pobjects as PO
from checks.c02 import BASE
tmp = pathlib.Path(tempfile.mkdtemp())
try:
    cl = family.make_pipeline(BASE)
    d = {'tasks': list(cl.values()), 'path': 'p', 'thr': 1, 'lr': 1, 'layers': [1, 'a'], 'fmt': 'f',
         'opts': PO.Sized(a['size'], tags=set(a['elems']))}
    ch = Chain(Config(tmp, name='cfg', data=d))
    for t in ('prep:clean', 'model'):
        print('KEY', t, ch.tasks[t].name_for_persistence)
finally:
    shutil.rmtree(tmp, ignore_errors=True)
'''


def keys_equal(k1, k2):
    if isinstance(k1, str) and isinstance(k2, str) and not isinstance(k1, Sym) and not isinstance(k2, Sym):
        return k1 == k2
    return z3.Not(keys_differ(k1, k2))


def permuted(spec, order):
    out = []
    for t in spec:
        t = dict(t)
        ps = t.get('params', [])
        t['params'] = [ps[i] for i in order(len(ps))]
        out.append(t)
    return out


def make_harness(case, tier):
    sc, _ = case
    keylib.setup(full=True, hash_mode='uf')
    from taskchain import Config

    def harness(ctx):
        fs = keylib.fresh_fs()
        S, I, B = ctx.sym_str, ctx.sym_int, ctx.sym_bool
        base = fs.path('/data')
        nb = '{}\n' if sc.startswith('global-vars') else ''
        vals = {'path': S('path', exclude=nb), 'thr': I('thr'), 'lr': I('lr'),
                'layers': [I('l0'), S('l1', exclude=nb)], 'fmt': S('fmt', exclude=nb)}
        if sc in ('kwargs-order', 'set-order'):
            # scenarios of the two recorded findings: only the values the finding depends on stay symbolic
            vals = {'path': 'p', 'thr': 1, 'lr': 2, 'layers': [3, 'l'], 'fmt': 'f'}
        info = {'scenario': sc, 'vals': describe(vals)}
        known = {}
        pairs = None      # list of (task name in chain A, task name in chain B)

        def mk(spec, data, name='cfg', ns=None, context=None, gv=None, order=None):
            cl = family.make_pipeline(spec)
            classes = list(cl.values())
            if order:
                classes = [classes[i] for i in order]
            return keylib.chain(keylib.config(fs, classes, data, name=name, namespace=ns, context=context,
                                              global_vars=gv))
        if sc == 'rename':
            A = mk(BASE, dict(vals), name='experiment_1')
            B_ = mk(BASE, dict(vals), name='some/other.name')
        elif sc == 'namespace':
            A = mk(BASE, dict(vals))
            ns = ['left', 'outer::inner', 'a::b'][ctx.choice('ns', 3)]
            info['ns'] = ns
            B_ = mk(BASE, dict(vals), ns=ns)
            pairs = [(t, f'{ns}::{t}') for t in A.tasks]
        elif sc == 'decl-order':
            A = mk(BASE, dict(vals))
            B_ = mk(permuted(BASE, lambda n: list(range(n))[::-1]), dict(vals))
        elif sc == 'task-order':
            A = mk(BASE, dict(vals))
            B_ = mk(BASE, dict(vals), order=[2, 0, 3, 1])
        elif sc == 'mapkey-order':
            n1, n2 = I('m3'), S('m4')
            o1 = {'alpha': I('m0'), 'beta': S('m1'), 'gamma': [B('m2'), {'p': n1, 'q': n2}], 'nested': {'x': n1, 'y': {'u': n2, 'v': n1}}}
            o2 = {'gamma': [o1['gamma'][0], {'q': n2, 'p': n1}], 'nested': {'y': {'v': n1, 'u': n2}, 'x': n1}, 'alpha': o1['alpha'], 'beta': o1['beta']}
            A = mk(BASE, dict(vals, opts=o1))
            B_ = mk(BASE, dict(vals, opts=o2))
            d1 = {k: vals[k] for k in ('layers', 'lr', 'thr', 'path', 'fmt')}
            C_ = mk(BASE, d1, name='reordered')
            for t in A.tasks:
                ctx.check(keys_equal(A.tasks[t].name_for_persistence, C_.tasks[t].name_for_persistence) if t != 'prep:clean' and
                          t != 'model' else True, 'same-key', dict(info, task=t, variant='config-key-order'))
        elif sc == 'kwargs-order':
            a, b = I('ka'), S('kb')
            d1 = {'class': 'ref.pobjects.Plain', 'kwargs': {'a': a, 'b': b}}
            d2 = {'class': 'ref.pobjects.Plain', 'kwargs': {'b': b, 'a': a}}
            A = mk(BASE, dict(vals, opts=d1))
            B_ = mk(BASE, dict(vals, opts=d2))
            known = {KWORDER: z3.BoolVal(True)}
            info['kw'] = [a, b]
            # objects WITH a repr are order-insensitive
            e1 = {'class': 'ref.pobjects.Sized', 'kwargs': {'size': a, 'tags': [b]}}
            e2 = {'class': 'ref.pobjects.Sized', 'kwargs': {'tags': [b], 'size': a}}
            try:
                A2 = mk(BASE, dict(vals, opts=e1), name='r1')
                B2 = mk(BASE, dict(vals, opts=e2), name='r2')
            except AssertionError:
                return
            for t in A2.tasks:
                ctx.check(keys_equal(A2.tasks[t].name_for_persistence, B2.tasks[t].name_for_persistence), 'same-key',
                          dict(info, task=t, variant='kwargs-of-object-with-repr'))
        elif sc == 'ignored':
            A = mk(BASE, dict(vals, verbose=B('v1')))
            B_ = mk(BASE, dict(vals, verbose=B('v2')))
            spec2 = [dict(t) for t in BASE]
            spec2[1] = dict(spec2[1], params=spec2[1]['params'] + [par('debug', default=0, ignore=True)])
            spec2[3] = dict(spec2[3], params=[par('debug', default=0, ignore=True)])      # a task without any other parameter
            C_ = mk(spec2, dict(vals, debug=I('dbg')), name='withdebug')
            for t in A.tasks:
                ctx.check(keys_equal(A.tasks[t].name_for_persistence, C_.tasks[t].name_for_persistence), 'same-key',
                          dict(info, task=t, variant='added-ignored-parameter'))
        elif sc == 'default-explicit':
            v = dict(vals)
            v.pop('fmt')
            A = mk(BASE, v)
            B_ = mk(BASE, dict(v, fmt='csv'))
            spec2 = [dict(t) for t in BASE]
            spec2[2] = dict(spec2[2], params=spec2[2]['params'] + [par('seed', default=42, dpdv=True)])
            spec2[3] = dict(spec2[3], params=[par('seed', default=42, dpdv=True)])        # a task without any other parameter
            # defaults that repr() and the persistence representation write differently
            spec2[0] = dict(spec2[0], params=spec2[0]['params'] + [par('opt', default={'b': 1, 'a': [2, "it's"]}, dpdv=True),
                                                                    par('label', default="it's", dpdv=True)])
            C_ = mk(spec2, dict(v), name='newparam')
            D_ = mk(spec2, dict(v, seed=42), name='newparam-explicit')
            for t in A.tasks:
                ctx.check(keys_equal(A.tasks[t].name_for_persistence, C_.tasks[t].name_for_persistence), 'same-key',
                          dict(info, task=t, variant='added-default-valued-parameter'))
                ctx.check(keys_equal(A.tasks[t].name_for_persistence, D_.tasks[t].name_for_persistence), 'same-key',
                          dict(info, task=t, variant='added-default-valued-parameter-explicit'))
        elif sc == 'context-global':
            A = mk(BASE, dict(vals))
            v = dict(vals)
            thr, lr = v.pop('thr'), v.pop('lr')
            B_ = mk(BASE, v, context={'thr': thr, 'lr': lr})
            C_ = mk(BASE, dict(vals, thr=0, lr=0), context={'thr': thr, 'lr': lr}, name='overridden')
            for t in A.tasks:
                ctx.check(keys_equal(A.tasks[t].name_for_persistence, C_.tasks[t].name_for_persistence), 'same-key',
                          dict(info, task=t, variant='context-overrides-config'))
        elif sc == 'context-ns':
            A = mk(BASE, dict(vals), ns='exp')
            v = dict(vals)
            thr = v.pop('thr')
            B_ = mk(BASE, v, ns='exp', context={'for_namespaces': {'exp': {'thr': thr}, 'other': {'thr': 0}}})
            pairs = [(t, t) for t in A.tasks]
        elif sc == 'context-list':
            A = mk(BASE, dict(vals))
            v = dict(vals)
            thr, lr = v.pop('thr'), v.pop('lr')
            B_ = mk(BASE, v, context=[{'thr': 0, 'lr': lr}, {'thr': thr}])
        elif sc == 'global-vars':
            r1, r2 = S('root1', exclude='{}\n'), S('root2', exclude='{}\n')
            v = dict(vals, path='{ROOT}/data.csv', opts={'dir': '{ROOT}/{SUB}', 'n': I('n')})
            A = mk(BASE, dict(v), gv={'ROOT': r1, 'SUB': 'x'})
            B_ = mk(BASE, {k: (dict(x) if isinstance(x, dict) else x) for k, x in v.items()}, gv={'ROOT': r2, 'SUB': I('sub')})
            info['roots'] = [r1, r2]
        elif sc == 'global-vars-path':
            import pathlib
            spec = [P('Reader', params=[par('src', dtype=pathlib.Path), par('n')]),
                    P('After', inputs=[inp('Reader')])]
            r1, r2 = S('root1', exclude='{}\n'), S('root2', exclude='{}\n')
            n = I('n')
            A = mk(spec, {'src': '{ROOT}/in', 'n': n}, gv={'ROOT': r1})
            B_ = mk(spec, {'src': '{ROOT}/in', 'n': n}, gv={'ROOT': r2})
            info['roots'] = [r1, r2]
        elif sc == 'global-vars-str':
            spec = [P('Reader', params=[par('src', dtype=str), par('n', dtype=int), par('lbl', dtype=str, default='{ROOT}/d')]),
                    P('After', inputs=[inp('Reader')])]
            r1, r2 = S('root1', exclude='{}\n'), S('root2', exclude='{}\n')
            n = I('n')
            A = mk(spec, {'src': '{ROOT}/in', 'n': n}, gv={'ROOT': r1})
            B_ = mk(spec, {'src': '{ROOT}/in', 'n': n}, gv={'ROOT': r2})
            info['roots'] = [r1, r2]
        elif sc == 'optional-absent':
            x = I('x')
            spec1 = [P('Base', params=[par('x')]),
                     P('User', inputs=[inp('Base'), inp('missing_task', 'param_optional', default=7)])]
            spec2 = [P('Base', params=[par('x')]), P('User', inputs=[inp('Base')])]
            A = mk(spec1, {'x': x})
            B_ = mk(spec2, {'x': x})
        elif sc == 'set-order':
            from ref import pobjects as PO
            n = 2 if tier == 'quick' else 3
            elems = ['alpha', 'beta', 'gamma'][:n]
            size = I('size')
            if keylib.in_replay():
                # real sets, real hash randomisation: the same configuration in interpreters with different seeds
                import json
                import os
                import subprocess
                import sys
                seen = {}
                for seed in ('1', '2', '3', '4', '5'):
                    env = dict(os.environ, PYTHONHASHSEED=seed)
                    out = subprocess.run([sys.executable, '-c', SET_SCRIPT, json.dumps({'elems': elems, 'size': size})],
                                         env=env, capture_output=True, text=True, timeout=120)
                    for line in out.stdout.splitlines():
                        if line.startswith('KEY '):
                            _, t, k = line.split()
                            seen.setdefault(t, set()).add(k)
                for t in ('prep:clean', 'model'):
                    ctx.check_concrete(len(seen.get(t, ())) == 1, 'same-key',
                                       dict(info, task=t, keys_over_hash_seeds=sorted(seen.get(t, ()))))
                return
            try:
                # `{... for v in val}` yields a set of symbolic order; chain A and chain B stand for two interpreters
                instr.SX.SYMBOLIC_SET_ORDER[0] = 'A'
                A = mk(BASE, dict(vals, opts=PO.Sized(size, tags=set(elems))))
                ka = [A.tasks[t].name_for_persistence for t in A.tasks]
                instr.SX.SYMBOLIC_SET_ORDER[0] = 'B'
                B_ = mk(BASE, dict(vals, opts=PO.Sized(size, tags=set(elems))))
                kb = [B_.tasks[t].name_for_persistence for t in B_.tasks]
            except AssertionError:
                return
            finally:
                instr.SX.SYMBOLIC_SET_ORDER[0] = False
            known = {SETORDER: z3.BoolVal(True)}
            info['set'] = elems
        elif sc == 'uses-order':
            ds = [P('Dataset', params=[par('size')])]
            mg = [P('Merge', inputs=[inp('train::dataset', 'name'), inp('valid::dataset', 'name')])]
            s1, s2 = I('s1'), I('s2')
            chains = []
            for rev in (False, True):
                dcl = family.make_pipeline(ds)
                mcl = family.make_pipeline(mg)
                ct = Config(base, name='tr', namespace='train', data={'tasks': list(dcl.values()), 'size': s1})
                cv = Config(base, name='va', namespace='valid', data={'tasks': list(dcl.values()), 'size': s2})
                uses = [cv, ct] if rev else [ct, cv]
                chains.append(keylib.chain(Config(base, name='main', data={'tasks': list(mcl.values()), 'uses': uses})))
            A, B_ = chains
            info['sizes'] = [s1, s2]
        else:
            raise ValueError(sc)
        pairs = pairs or [(t, t) for t in A.tasks]
        ctx.check_concrete(len(A.tasks) == len(B_.tasks), 'same-tasks', dict(info, got=[sorted(A.tasks), sorted(B_.tasks)]))
        for ta, tb in pairs:
            t1, t2 = A.tasks[ta], B_.tasks[tb]
            # opts only reaches prep:clean and (through it) model: the other tasks are unaffected anyway
            ctx.check(keys_equal(t1.name_for_persistence, t2.name_for_persistence), 'same-key', dict(info, task=ta, task_b=tb),
                      known=known if ta in ('prep:clean', 'model') else None)
            ctx.check_concrete(tuple(t1.path.parts) == tuple(t2.path.parts), 'same-dir',
                               dict(info, task=ta, task_b=tb, got=[list(t1.path.parts), list(t2.path.parts)]))
    return harness


def run_case(case, tier):
    ctx = explore.explore(make_harness(case, tier), max_paths=3000,
                          decide_timeout_ms=30000 if tier == 'quick' else 90000)
    return driver.result_from_ctx(ctx)


def match_finding(spec, v, listed):
    ids = {f['id'] for f in listed}
    info = spec.get('info') or {}
    if info.get('scenario') == 'kwargs-order' and KWORDER in ids and info.get('task') in ('prep:clean', 'model') \
            and 'variant' not in info:
        return KWORDER
    if info.get('scenario') == 'set-order' and SETORDER in ids and info.get('task') in ('prep:clean', 'model') \
            and 'variant' not in info:
        return SETORDER
    return None
