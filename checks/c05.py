"""C05 — a result is visible only when complete (failure and crash atomicity).

Real code executed: Task.data (incl. its except branch), _process_run_result, every save / load / exists / delete /
init_persistence / on_run_error / finished of the modelled Data classes, write_jsons / iter_json_file, over MFS.
Symbolic (choice variables): data class, first computation vs forced recomputation over an existing result, fault kind
(run raises before / late / at generator item m, mistyped return value, unserialisable value, process death immediately
before file-system operation k with a torn prefix of the file being flushed), then a restart and a new request.
Oracle: after the fault and a restart: has_data => the value loads and equals the reference value without running;
not has_data => recomputation yields it; failed directory tasks leave <key>_error and no <key>; resumable tasks keep
<key>_tmp until finished.
"""
import copy

from sx import explore, driver, replay as _rp
from checks import hist
from ref import family
from ref.family import P, par, inp

PROPERTY = 'C05'
FUNCTIONS = ['taskchain.task.Task.data', 'taskchain.task.Task._process_run_result', 'taskchain.data',
             'taskchain.utils.io']
EXPLANATION = ('Exhaustive branch-driven symbolic exploration of the real Task.data and Data classes over the model '
               'file system with the fault as symbolic choice: data class x first/forced x fault kind x crash tick k '
               'x torn-prefix kind. On every path the state a later chain finds is compared with the reference; '
               'violations are replayed on the real file system (process killed at the same operation).')
ASSUMPTIONS = ['file system = MFS: open(w) truncates at once, buffered data is published on flush/close at the handle '
               'offset, rename is atomic, rmtree removes entry by entry; a crash loses unflushed buffers',
               'torn prefix of a flush: nothing / first half / all but the last character',
               'numpy / pandas / orjson run for real into the model file system']
OUTSIDE = ['FigureData, H5Data (C-level file access)', 'two crashes in a row', 'crashes inside config loading']
REACH = ['recovers', 'visible=>complete', 'dir-error-set-aside', 'continues-keeps-tmp']

KINDS = ['json', 'gen', 'lazy', 'npy', 'listnpy', 'pd', 'dir', 'cont', 'mem']


def bounds(tier):
    return {'data_kinds': KINDS, 'crash_points': 'every tick of the faulted request', 'torn_prefix_kinds': 3,
            'faults': ['run raises early', 'run raises late / at item m', 'mistyped return', 'unserialisable value',
                       'crash before operation k'], 'modes': ['first computation', 'forced over existing result'],
            'second_crash_during_recovery': tier == 'thorough'}


def cases(tier):
    out = []
    for d in KINDS:
        for mode in ('first', 'forced'):
            for fault in ('none', 'raise', 'late', 'mistyped', 'unserialisable', 'crash'):
                out.append((d, mode, fault))
    return out


class Unserialisable:
    pass


def spec_for(kind):
    return [P('Up', params=[par('x', default=3)]),
            P('Work', inputs=[inp('Up')], data=kind, params=[par('w', default=1)])]


def make_harness(case, tier):
    kind, mode, fault = case
    hist.setup(full=True)
    tier = tier or 'quick'
    spec = spec_for(kind)

    def harness(ctx):
        if kind == 'mem' and (fault != 'raise' or mode == 'forced'):
            return
        world = hist.World(spec, [{}])
        ref = hist.Ref(spec, [{}])
        fs = world.fs
        if mode == 'forced':
            hist.prestate(world, ref, 0, {'up', 'work'})
        k = world.build(0)
        ref.build(0)
        task = world.task(k, 'work')
        if mode == 'forced':
            task.force()
        info = {'kind': kind, 'mode': mode, 'fault': fault}
        expected = ref.ev(k)['work']['value']
        crash_spec = None
        retry_same = False
        # ---- the faulted request
        if fault in ('raise', 'late'):
            point = 'work' if fault == 'raise' else {'dir': 'work/late', 'cont': 'work/late', 'gen': 'work/item',
                                                     'lazy': 'work/item'}.get(kind)
            if point is None:
                return
            m = ctx.choice('m', 3) if point.endswith('/item') else 0
            info['point'] = [point, m]

            def boom(task, kk=None, point=point, m=m):
                if kk is None or kk == m:
                    family.FAIL.pop(point, None)
                    raise hist.RunFailed(point)
            family.FAIL[point] = boom
            got = world.request(k, 'work')
            family.FAIL.pop(point, None)
            ctx.check_concrete(got[0] == 'exc', 'fault-propagates', dict(info, got=repr(got)[:200]))
            if kind in ('dir', 'cont') and ctx.flag('fails_twice'):
                family.FAIL[point] = boom
                got = world.request(k, 'work')
                family.FAIL.pop(point, None)
                info['failed_twice'] = True
                ctx.check_concrete(got[0] == 'exc', 'fault-propagates', dict(info, got=repr(got)[:200]))
            retry_same = ctx.flag('retry_on_same_object')
        elif fault == 'none':
            got = world.request(k, 'work')
            ctx.check_concrete(got[0] == 'ok' and family.norm_input(got[1]) == expected, 'recovers', dict(info, got=repr(got)[:200]))
            if kind in ('dir', 'cont', 'listnpy'):
                # a (re)computed directory result holds exactly the files of that one run
                import os
                res = task.path / task.name_for_persistence
                names_ = sorted(str(c.name) for c in res.iterdir())
                want = {'dir': ['out.json'], 'cont': ['out.json', 'part0.json', 'part1.json'], 'listnpy': ['0.npy', '1.npy', '2.npy']}[kind]
                ctx.check_concrete(names_ == want, 'visible=>complete', dict(info, entries=names_, expected=want))
        elif fault == 'mistyped':
            import taskchain.task as TT
            orig = type(task).run
            wrong = {'json': ['not', 'a', 'dict'], 'npy': [1, 2], 'pd': {'a': 1}, 'listnpy': 'abc', 'dir': 5, 'cont': 5,
                     'lazy': 5}.get(kind)
            if wrong is None:
                return
            type(task).run = lambda self: wrong
            try:
                try:
                    task.value
                    outcome = 'ok'
                except (ValueError, TypeError, AttributeError, AssertionError) as e:
                    outcome = 'exc'
            finally:
                type(task).run = orig
            if kind == 'listnpy':
                # a str is a sequence: ListOfNumpyData accepts any list-like; the declared type is `list`
                pass
            ctx.check_concrete(outcome == 'exc', 'fault-propagates', dict(info, got=outcome))
        elif fault == 'unserialisable':
            if kind not in ('json', 'gen', 'lazy'):
                return
            orig = type(task).run
            bad = {'json': {'x': Unserialisable()}, 'gen': None, 'lazy': None}[kind]
            if kind == 'json':
                type(task).run = lambda self: bad
            else:
                # an item that cannot be serialised: injected through the generator hook
                mm = ctx.choice('m', 3)
                info['point'] = ['item', mm]
                orig_tag = family.tag

                def run_bad(self):
                    r = orig(self)
                    if kind == 'gen':
                        def g():
                            for i, x in enumerate(r):
                                yield {'bad': Unserialisable()} if i == mm else x
                        return g()
                    inner = r._value
                    def g2():
                        for i, x in enumerate(inner()):
                            yield {'bad': Unserialisable()} if i == mm else x
                    r.set_value(g2)
                    return r
                type(task).run = run_bad
            try:
                try:
                    task.value
                    outcome = 'ok'
                except TypeError:
                    outcome = 'exc'
            finally:
                type(task).run = orig
            ctx.check_concrete(outcome == 'exc', 'fault-propagates', dict(info, got=outcome))
        elif fault == 'crash':
            if _rp.MODE['replay']:
                from sx import realcrash
                crash_spec = ctx.replay_info.get('crash')
                realcrash.run_crashing(str(fs.root), 'checks.c05', repr(case), crash_spec)
            else:
                # how many file-system operations does the fault-free request perform?  (measured on a twin world)
                twin = hist.World(spec, [{}])
                tref = hist.Ref(spec, [{}])
                if mode == 'forced':
                    hist.prestate(twin, tref, 0, {'up', 'work'})
                tk = twin.build(0)
                if mode == 'forced':
                    twin.task(tk, 'work').force()
                t0 = twin.fs.ticks
                twin.request(tk, 'work')
                total = twin.fs.ticks - t0
                ctx.check_concrete(total <= 40, 'tick-bound', dict(info, ticks=total))
                # rebind the environment to this path's world (the twin re-bound it)
                from sx import env as _env
                _env.bind(fs)
                kk = ctx.choice('k', max(total, 1))
                torn_kind = ctx.choice('torn', 3)
                fs.crash_at = fs.ticks + kk
                fs.torn = lambda chunks, tk=torn_kind: torn_prefix(chunks, tk)
                from sx.mfs import Crash
                crashed = False
                try:
                    task.value
                except Crash:
                    crashed = True
                if fs.latched is not None:
                    crashed = True
                what = fs.crashed_at
                info['crash'] = describe_tick(fs, what, torn_kind)
                info['tick'] = kk
                if not crashed:
                    return          # k beyond the operations actually performed on this path
        # ---- work directories of failed directory / resumable tasks
        if fault in ('raise', 'late') and kind in ('dir', 'cont'):
            key = task.name_for_persistence
            base = task.path
            res, tmp, errd = base / key, base / f'{key}_tmp', base / f'{key}_error'
            if kind == 'dir':
                ok = errd.exists() and not tmp.exists() and (res.exists() == (mode == 'forced'))
                ctx.check_concrete(ok, 'dir-error-set-aside', dict(info, error_dir=errd.exists(), tmp=tmp.exists(),
                                                                   result=res.exists()))
            else:
                ok = tmp.exists() and not errd.exists() and (fault == 'raise' or (tmp / 'part0.json').exists())
                ctx.check_concrete(ok, 'continues-keeps-tmp', dict(info, error_dir=errd.exists(), tmp=tmp.exists(),
                                                                   result=res.exists()))
        if fault in ('raise', 'late') and retry_same:
            # requesting the value again -- same chain, same task object -- runs it again and recovers
            mark0 = world.mark()
            again = world.request(k, 'work')
            ok0 = again[0] == 'ok' and family.norm_input(again[1]) == expected and \
                'work' in [r[0] for r in world.runs_since(mark0)]
            ctx.check_concrete(ok0, 'recovers', dict(info, retry='same task object', got=repr(again)[:200]))
        # ---- restart and look at what a later chain finds
        if not _rp.MODE['replay']:
            fs.reboot()
        world.drop_chains()
        ref.drop_chains()
        family.FAIL.clear()
        if tier == 'thorough' and fault == 'crash' and ctx.flag('second_crash'):
            # the process that comes to recover dies as well, at file operation k2 of its own request
            k2c = ctx.choice('k2', 14)
            torn2 = ctx.choice('torn2', 3)
            if _rp.MODE['replay']:
                from sx import realcrash
                realcrash.run_crashing(str(fs.root), 'checks.c05', repr(case), ctx.replay_info.get('crash2'), phase=2)
            else:
                from sx.mfs import Crash
                kb = world.build(0)
                fs.crash_at = fs.ticks + k2c
                fs.torn = lambda chunks, tk=torn2: torn_prefix(chunks, tk)
                n0 = len(fs.log)
                try:
                    world.task(kb, 'work').value
                except Crash:
                    pass
                except Exception:
                    pass
                info['crash2'] = describe_tick_since(fs, fs.crashed_at, torn2, n0) if fs.crashed_at else None
                fs.reboot()
                world.drop_chains()
        k2 = world.build(0)
        ref.build(0)
        t2 = world.task(k2, 'work')
        known = classify(kind, mode, fault, info)
        has = t2.has_data
        mark = world.mark()
        try:
            got = world.request(k2, 'work')
            val = family.norm_input(got[1]) if got[0] == 'ok' else None
            err = None
        except Exception as e:      # a later chain must never fail because of what the fault left behind
            got, val, err = ('raised', None), None, f'{type(e).__name__}: {e}'[:200]
        runs = [r[0] for r in world.runs_since(mark)]
        ok = got[0] == 'ok' and val == expected
        ctx.check_concrete(ok, 'recovers', dict(info, has_data=has, got=repr(val)[:300], error=err,
                                                expected=repr(expected)[:300]), known_id=known)
        if has and ok:
            ctx.check_concrete('work' not in runs, 'visible=>complete', dict(info, ran=runs), known_id=known)
        # a second request (fresh chain) is served from storage and equals the reference
        world.drop_chains()
        k3 = world.build(0)
        try:
            again = world.request(k3, 'work')
            ok2 = again[0] == 'ok' and family.norm_input(again[1]) == expected
        except Exception as e:
            ok2 = False
        ctx.check_concrete(ok2, 'recovers-again', dict(info, has_data=has), known_id=known)
    return harness


def crash_child(root, case, phase=1):
    """(replay) the faulted request on the real file system, inside the child process that will be killed.
    phase 2 = the recovery request of a later process, which dies as well (thorough tier)."""
    kind, mode, fault = case
    spec = spec_for(kind)
    world = hist.World(spec, [{}], real_root=root)
    k = world.build(0)
    task = world.task(k, 'work')
    if mode == 'forced' and phase == 1:
        task.force()
    task.value


def torn_prefix(chunks, kind):
    """What reaches the disk of a flush interrupted by the crash."""
    if kind == 0:
        return []
    if all(isinstance(c, str) for c in chunks) or all(isinstance(c, bytes) for c in chunks):
        whole = chunks[0][:0].join(chunks)
        cut = len(whole) // 2 if kind == 1 else len(whole) - 1
        return [whole[:max(cut, 0)]] if cut > 0 else []
    from sx import mfs
    out = list(chunks[:max(len(chunks) // 2, 1)]) if kind == 1 else list(chunks[:-1])
    return out


def describe_tick(fs, what, torn_kind):
    """Crash point in file-system terms: operation kind, path relative to the data dir, occurrence number."""
    if what is None:
        return None
    kind = what[0]
    rel = '/'.join(map(str, what[1][1:]))
    n = 0
    for w in fs.log:
        if w[0] == kind and '/'.join(map(str, w[1][1:])) == rel:
            n += 1
    return {'op': kind, 'path': rel, 'nth': n, 'torn': torn_kind}


def describe_tick_since(fs, what, torn_kind, start):
    """like describe_tick, counting occurrences only among the operations of the second process"""
    if what is None:
        return None
    kind = what[0]
    rel = '/'.join(map(str, what[1][1:]))
    n = sum(1 for w in fs.log[start:] if w[0] == kind and '/'.join(map(str, w[1][1:])) == rel)
    return {'op': kind, 'path': rel, 'nth': n, 'torn': torn_kind}


def classify(kind, mode, fault, info):
    """Recorded findings a violating path may fall under: none -- both defects found by this check (in-place file
    writes, in-place directory replacement) were repaired (known_findings.json, 'fixed')."""
    return None


def run_case(case, tier):
    ctx = explore.explore(make_harness(case, tier), max_paths=(5000 if tier == 'quick' else 200000), time_budget_s=(400 if tier == 'quick' else 3600))
    return driver.result_from_ctx(ctx)


def match_finding(spec, v, listed):
    return None
