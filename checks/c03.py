"""C03 — different computations get different storage locations.

Real code executed: whole chain construction in parameter mode (Config, Parameter.set_value, ParameterRegistry.repr,
repr_from_instantiation, AutoParameterObject.repr, find_and_instantiate_clazz, TaskParameterConfig, _create_task).
Symbolic: two value trees v, v' (all leaves and mapping keys symbolic, strings and integers unbounded) placed in a
parameter of a task, of an upstream task at distance 1-2, in arguments of parameter objects, or as the parameters of
the tasks feeding two differently wired inputs.
Query per path:  v != v' (Python equality)  AND  key(v) == key(v')   -- must be unsat.
The recorded finding (strings are wrapped in quotes without escaping) is assumed away first and queried separately.
"""
import itertools
import z3

from sx import explore, driver, instr
from sx.sym import Sym, SymStr, SymInt, SymBool, to_bool_term, has_sym
from checks import keylib
from checks.c12 import describe
from ref import family
from ref.family import P, par, inp

PROPERTY = 'C03'
FUNCTIONS = ['taskchain.chain', 'taskchain.parameter', 'taskchain.utils.clazz', 'taskchain.config.Config',
             'taskchain.task.Task']
EXPLANATION = ('Symbolic execution of real chain construction for two configurations whose parameter values are '
               'symbolic trees; per path the solver is asked for values that differ under Python equality but give '
               'the same storage key (term over the uninterpreted injective hash H). unsat on every path = no two '
               'different computations of the explored shapes can share a location. The quote-collision finding is '
               'assumed away in that query and queried separately.')
ASSUMPTIONS = ['sha256[:32] modelled as uninterpreted injective function H',
               'mapping keys within one mapping are distinct and different from "class"',
               'NaN excluded; floats only from a concrete pool',
               "strings rendered by Python's repr() (arguments of AutoParameterObject) are printable, without backslash "
               'and do not contain both quote characters']
OUTSIDE = ['value trees deeper than 2 (quick) / 3 (thorough) or wider than 2', 'float values outside the pool']
REACH = ['distinct-values=>distinct-keys', 'upstream-change-propagates', 'wiring']
QUOTE = 'C03-quote'

LEAVES = ['str', 'int', 'bool', 'none']


def shapes(depth, width):
    out = [('leaf', k) for k in LEAVES]
    if depth > 1:
        sub = shapes(depth - 1, width)
        for n in range(width + 1):
            for combo in itertools.product(sub, repeat=n):
                out.append(('list', combo))
        for n in range(width + 1):
            for combo in itertools.product(sub, repeat=n):
                out.append(('dict', combo))
    return out


def bounds(tier):
    return {'value_tree_depth': 2 if tier == 'quick' else 3, 'width': 2, 'leaf_kinds': LEAVES + ['float (pool)'],
            'upstream_distance': '0-2', 'strings': 'unbounded length', 'integers': 'unbounded'}


def cases(tier):
    sh = shapes(2, 2)
    pairs = [(i, j) for i in range(len(sh)) for j in range(i, len(sh))]
    out = []
    B = 12
    for k in range(0, len(pairs), B):
        out.append(('shapes', 2, tuple(pairs[k:k + B])))
    if tier == 'thorough':
        sh3 = shapes(3, 1)
        p3 = [(i, j) for i in range(len(sh3)) for j in range(i, len(sh3))]
        for k in range(0, len(p3), B):
            out.append(('shapes3', 3, tuple(p3[k:k + B])))
    for sc in ('quote', 'propagate', 'through-memory', 'registry', 'objects', 'objects2', 'objects3', 'object-reuse', 'wiring', 'optional', 'distance',
               'floats'):
        out.append((sc, 0, ()))
    return out


class Mk:
    def __init__(self, ctx, tag, exclude="'"):
        self.ctx, self.tag, self.n = ctx, tag, 0
        self.strs = []
        self.exclude = exclude      # "'": the recorded finding's input class is outside these harnesses

    def fresh(self, f, **kw):
        self.n += 1
        return f(f'{self.tag}{self.n}', **kw)

    def build(self, sh):
        kind, arg = sh
        if kind == 'leaf':
            if arg == 'str':
                v = self.fresh(self.ctx.sym_str, exclude=self.exclude)
                self.strs.append(v)
                return v
            if arg == 'int':
                return self.fresh(self.ctx.sym_int)
            if arg == 'bool':
                return self.fresh(self.ctx.sym_bool)
            return None
        if kind == 'list':
            return [self.build(s) for s in arg]
        if kind == 'dict':
            pairs = []
            for s in arg:
                k = self.fresh(self.ctx.sym_str, exclude=self.exclude)
                self.strs.append(k)
                self.ctx.assume(k != 'class')
                for k2, _ in pairs:
                    self.ctx.assume(k != k2)
                pairs.append((k, self.build(s)))
            return keylib.SymItems(pairs)
        raise ValueError(kind)


def _num(x):
    if isinstance(x, SymInt):
        return x.t
    if isinstance(x, SymBool):
        return z3.If(x.t, 1, 0)
    if isinstance(x, bool):
        return z3.IntVal(int(x))
    if isinstance(x, int):
        return z3.IntVal(x)
    return None


def py_eq(a, b):
    """z3 Bool: Python equality of two value trees."""
    if a is None or b is None:
        return z3.BoolVal(a is None and b is None)
    na, nb = _num(a), _num(b)
    if na is not None and nb is not None:
        return na == nb
    if isinstance(a, float) or isinstance(b, float):
        if isinstance(a, (int, float)) and isinstance(b, (int, float)) and not isinstance(a, Sym) and not isinstance(b, Sym):
            return z3.BoolVal(a == b)
        if isinstance(a, float) and na is None and nb is not None:
            return nb == int(a) if a == int(a) else z3.BoolVal(False)
        if isinstance(b, float) and nb is None and na is not None:
            return na == int(b) if b == int(b) else z3.BoolVal(False)
        return z3.BoolVal(False)
    sa, sb = isinstance(a, (str, SymStr)), isinstance(b, (str, SymStr))
    if sa and sb:
        return to_bool_term(a == b) if isinstance(a, Sym) else to_bool_term(b == a)
    if type(a) is list and type(b) is list:
        if len(a) != len(b):
            return z3.BoolVal(False)
        return z3.And([py_eq(x, y) for x, y in zip(a, b)] + [z3.BoolVal(True)])
    if isinstance(a, keylib.SymItems) and isinstance(b, keylib.SymItems):
        n = len(a.pairs)
        if n != len(b.pairs):
            return z3.BoolVal(False)
        if n == 0:
            return z3.BoolVal(True)
        alts = []
        for perm in itertools.permutations(range(n)):
            alts.append(z3.And([z3.And(py_eq(a.pairs[i][0], b.pairs[perm[i]][0]),
                                       py_eq(a.pairs[i][1], b.pairs[perm[i]][1])) for i in range(n)]))
        return z3.Or(alts)
    return z3.BoolVal(False)


def quote_pred(strs):
    if not strs:
        return z3.BoolVal(False)
    return z3.Or([z3.Contains(s.t, z3.StringVal("'")) for s in strs if isinstance(s, Sym)] + [z3.BoolVal(False)])


def keys_differ(k1, k2):
    """k1 != k2; when both keys are H(text)[0:32] this is text1 != text2 under the injectivity assumption on H
    (spares the solver the hash axioms and lets the structured comparison of sx.sym split the texts)."""
    s1, s2 = getattr(k1, 'src', None), getattr(k2, 'src', None)
    if s1 is not None and s2 is not None and s1[1:] == (0, 32) and s2[1:] == (0, 32):
        a, b = s1[0], s2[0]
        return to_bool_term(a != b) if isinstance(a, Sym) else to_bool_term(b != a)
    return to_bool_term(k1 != k2)


HOLD = [P('Holder', params=[par('v'), par('w', default='d', dpdv=True)]),
        P('Next', inputs=[inp('Holder')], params=[par('u', default=None)]),
        P('Last', inputs=[inp('next', 'name')], data='dir')]


def two_chains(fs, spec, vals1, vals2, **kw):
    cl = family.make_pipeline(spec)
    c1 = keylib.chain(keylib.config(fs, cl.values(), vals1, name='one', **kw))
    c2 = keylib.chain(keylib.config(fs, cl.values(), vals2, name='two', **kw))
    return c1, c2


def pair_harness(a, b, pair):
    def harness(ctx):
        fs = keylib.fresh_fs()
        ma, mb = Mk(ctx, 'a'), Mk(ctx, 'b')
        va, vb = ma.build(a), mb.build(b)
        c1, c2 = two_chains(fs, HOLD, {'v': va}, {'v': vb})
        ne = z3.Not(py_eq(va, vb))
        info = {'scenario': 'value', 'v1': describe(va), 'v2': describe(vb), 'pair': list(pair)}
        k1, k2 = c1.tasks['holder'].name_for_persistence, c2.tasks['holder'].name_for_persistence
        ctx.check(z3.Implies(ne, keys_differ(k1, k2)), 'distinct-values=>distinct-keys', info)
    return harness


def make_harness(case, tier):
    kind, depth, pairs = case
    keylib.setup(full=True, hash_mode='uf')
    if kind in ('shapes', 'shapes3'):
        sh = shapes(2, 2) if kind == 'shapes' else shapes(3, 1)

        def replay_harness(ctx):
            i, j = ctx.replay_info['pair']
            return pair_harness(sh[i], sh[j], (i, j))(ctx)
        return replay_harness

    def scenario(ctx):
        fs = keylib.fresh_fs()
        S, I, B = ctx.sym_str, ctx.sym_int, ctx.sym_bool

        def Q(n, **k):          # strings outside the recorded finding's input class (no apostrophe)
            return ctx.sym_str(n, exclude="'", **k)
        if kind == 'quote':
            # the recorded finding, in its simplest setting: a list of strings vs a list with one string
            a, b, c = S('a'), S('b'), S('c')
            va, vb = [a, b], [c]
            c1, c2 = two_chains(fs, HOLD, {'v': va}, {'v': vb})
            k1, k2 = c1.tasks['holder'].name_for_persistence, c2.tasks['holder'].name_for_persistence
            ctx.check(keys_differ(k1, k2), 'distinct-values=>distinct-keys',
                      {'scenario': 'value', 'v1': describe(va), 'v2': describe(vb)},
                      known={QUOTE: quote_pred([a, b, c])})
        elif kind == 'propagate':
            # hash-chain step: whatever the upstream values are, downstream keys differ whenever upstream keys do
            va, vb = [S('a'), I('i')], [S('b'), I('j')]
            c1, c2 = two_chains(fs, HOLD, {'v': va}, {'v': vb})
            k1, k2 = c1.tasks['holder'].name_for_persistence, c2.tasks['holder'].name_for_persistence
            for t in ('next', 'last'):
                d1, d2 = c1.tasks[t].name_for_persistence, c2.tasks[t].name_for_persistence
                ctx.check(z3.Implies(to_bool_term(k1 != k2), to_bool_term(d1 != d2)), 'upstream-change-propagates',
                          {'scenario': 'value', 'task': t, 'v1': describe(va), 'v2': describe(vb)})
                k1, k2 = d1, d2
        elif kind == 'through-memory':
            # a parameter change upstream of an in-memory task moves every persisted task downstream of it
            spec = [P('Src', params=[par('x')]), P('Mem', inputs=[inp('Src')], data='mem', params=[par('m', default=0)]),
                    P('Out', inputs=[inp('Mem')]), P('Out2', inputs=[inp('Out')], data='dir')]
            x1, x2, m1, m2 = Q('x1'), Q('x2'), I('m1'), I('m2')
            c1, c2 = two_chains(fs, spec, {'x': x1, 'm': m1}, {'x': x2, 'm': m2})
            differ = z3.Or(z3.Not(py_eq(x1, x2)), z3.Not(py_eq(m1, m2)))
            for t in ('out', 'out2'):
                k1, k2 = c1.tasks[t].name_for_persistence, c2.tasks[t].name_for_persistence
                ctx.check(z3.Implies(differ, keys_differ(k1, k2)), 'distinct-values=>distinct-keys',
                          {'scenario': 'through-memory', 'task': t, 'v1': [x1, m1], 'v2': [x2, m2]})
        elif kind == 'registry':
            spec = [P('Multi', params=[par('a'), par('b', default='bd', dpdv=True), par('c', default=0),
                                       par('ab', default=None, dpdv=True), par('ig', default=0, ignore=True)])]
            v1 = {'a': Q('a1'), 'b': Q('b1'), 'c': I('c1'), 'ab': Q('ab1'), 'ig': I('g1')}
            v2 = {'a': Q('a2'), 'b': Q('b2'), 'c': I('c2'), 'ab': Q('ab2'), 'ig': I('g2')}
            q = quote_pred([v1[k] for k in ('a', 'b', 'ab')] + [v2[k] for k in ('a', 'b', 'ab')])
            c1, c2 = two_chains(fs, spec, v1, v2)
            same = z3.And([py_eq(v1[k], v2[k]) for k in ('a', 'b', 'c', 'ab')])
            k1, k2 = c1.tasks['multi'].name_for_persistence, c2.tasks['multi'].name_for_persistence
            ctx.check(z3.Implies(z3.Not(same), keys_differ(k1, k2)), 'distinct-values=>distinct-keys',
                      {'scenario': 'registry', 'v1': describe(v1), 'v2': describe(v2)})
        elif kind in ('objects', 'objects2', 'objects3'):
            from ref import pobjects as PO
            pr = dict(exclude='\\\n\r\t\x00\x7f\'"')   # Python's own repr() quoting/escaping is not under test
            spec = [P('Obj', params=[par('o')]), P('Use', inputs=[inp('Obj')])]
            if kind == 'objects':
                a1, a2, b1, b2 = S('a1', **pr), S('a2', **pr), I('b1'), I('b2')
                o1, o2 = PO.Custom(a1, b1), PO.Custom(a2, b2)
                same = z3.And(py_eq(a1, a2), py_eq(b1, b2))
                q = z3.BoolVal(False)
                desc = {'scenario': 'custom', 'v1': [a1, b1], 'v2': [a2, b2]}
            else:
                pq = dict(exclude='\\\n\r\t\x00\x7f"')       # apostrophes allowed: repr() then switches to double quotes
                if kind == 'objects2':
                    s1, s2, t1, t2, r1, r2 = I('s1'), I('s2'), S('t1', **pq), S('t2', **pq), I('r1'), I('r2')
                    o1 = PO.Sized(s1, tags=[t1, 7], rate=r1)
                    o2 = PO.Sized(s2, tags=[t2, 7], rate=r2)
                    same = z3.And(py_eq(s1, s2), py_eq(t1, t2), py_eq(r1, r2))
                    desc = {'scenario': 'sized', 'v1': [s1, t1, r1], 'v2': [s2, t2, r2]}
                else:
                    # two string arguments side by side; no letter x: the library refuses any argument text that
                    # contains 'object at 0x', which would only add aborted paths here
                    pq = dict(exclude='\\\n\r\t\x00\x7f"x')
                    pr = dict(exclude='\\\n\r\t\x00\x7f\'"x')

                    def Sq(name):
                        # which quoting style repr() picks is a choice, so that each string's character class is exact
                        if ctx.flag(name + '_has_apostrophe'):
                            v = S(name, **pq)
                            if isinstance(v, Sym):
                                ctx.assume(z3.Contains(v.t, z3.StringVal("'")))
                            return v
                        return S(name, **pr)
                    t1, u1, t2, u2 = Sq('t1'), Sq('u1'), Sq('t2'), Sq('u2')
                    o1 = PO.Sized(3, tags=[t1, u1], rate=2)
                    o2 = PO.Sized(3, tags=[t2, u2], rate=2)
                    same = z3.And(py_eq(t1, t2), py_eq(u1, u2))
                    desc = {'scenario': 'sized-two-strings', 'v1': [t1, u1], 'v2': [t2, u2]}
                q = z3.BoolVal(False)
            try:
                c1, c2 = two_chains(fs, spec, {'o': o1}, {'o': o2})
            except AssertionError:
                return
            k1, k2 = c1.tasks['obj'].name_for_persistence, c2.tasks['obj'].name_for_persistence
            ctx.check(z3.Implies(z3.Not(same), keys_differ(k1, k2)), 'distinct-values=>distinct-keys', desc)
            d1, d2 = c1.tasks['use'].name_for_persistence, c2.tasks['use'].name_for_persistence
            ctx.check(z3.Implies(to_bool_term(k1 != k2), to_bool_term(d1 != d2)), 'upstream-change-propagates',
                      dict(desc, task='use'))
        elif kind == 'object-reuse':
            # a parameter object is used in one chain, then copied and changed, and used again
            import copy
            from ref import pobjects as PO
            spec = [P('Obj', params=[par('o')]), P('Use', inputs=[inp('Obj')])]
            s1, s2, r1 = I('s1'), I('s2'), I('r1')
            how = ctx.choice('how', 3)
            o1 = PO.Sized(s1, tags=[1, 2], rate=r1)
            cl = family.make_pipeline(spec)
            try:
                c1 = keylib.chain(keylib.config(fs, cl.values(), {'o': o1}, name='one'))
                k1 = c1.tasks['obj'].name_for_persistence
                u1 = c1.tasks['use'].name_for_persistence
                o2 = copy.deepcopy(o1) if how == 0 else (copy.copy(o1) if how == 1 else o1)
                o2.size = s2
                c2 = keylib.chain(keylib.config(fs, cl.values(), {'o': o2}, name='two'))
            except AssertionError:
                return
            k2 = c2.tasks['obj'].name_for_persistence
            desc = {'scenario': 'object-reuse', 'how': how, 'v1': [s1, r1], 'v2': [s2, r1]}
            ctx.check(z3.Implies(z3.Not(py_eq(s1, s2)), keys_differ(k1, k2)), 'distinct-values=>distinct-keys', desc)
            ctx.check(z3.Implies(z3.Not(py_eq(s1, s2)), keys_differ(u1, c2.tasks['use'].name_for_persistence)),
                      'upstream-change-propagates', dict(desc, task='use'))
        elif kind == 'wiring':
            from taskchain import Config
            ds = [P('Dataset', params=[par('size')])]
            mg = [P('Merge', inputs=[inp('train::dataset', 'name'), inp('valid::dataset', 'name')]),
                  P('Report', inputs=[inp('Merge')])]
            sizes = [I('s1'), I('s2'), I('s3'), I('s4')]
            chains = []
            for n, (a, b) in enumerate(((sizes[0], sizes[1]), (sizes[2], sizes[3]))):
                dcl = family.make_pipeline(ds)
                mcl = family.make_pipeline(mg)
                base = fs.path('/data')
                ct = Config(base, name=f'tr{n}', namespace='train', data={'tasks': list(dcl.values()), 'size': a})
                cv = Config(base, name=f'va{n}', namespace='valid', data={'tasks': list(dcl.values()), 'size': b})
                main = Config(base, name=f'main{n}', data={'tasks': list(mcl.values()), 'uses': [ct, cv]})
                chains.append(keylib.chain(main))
            same = z3.And(py_eq(sizes[0], sizes[2]), py_eq(sizes[1], sizes[3]))
            for t in ('merge', 'report'):
                k1, k2 = chains[0].tasks[t].name_for_persistence, chains[1].tasks[t].name_for_persistence
                ctx.check(z3.Implies(z3.Not(same), keys_differ(k1, k2)), 'wiring',
                          {'scenario': 'wiring', 'sizes': sizes, 'task': t})
        elif kind == 'optional':
            x, e = I('x'), I('e')
            cl = family.make_pipeline(family.OPTIONAL)
            with_extra = keylib.chain(keylib.config(fs, cl.values(), {'x': x, 'e': e}, name='w'))
            cl2 = family.make_pipeline(family.OPTIONAL)
            without = keylib.chain(keylib.config(fs, [cl2['Base'], cl2['User']], {'x': x}, name='wo'))
            k1, k2 = with_extra.tasks['user'].name_for_persistence, without.tasks['user'].name_for_persistence
            ctx.check(to_bool_term(k1 != k2), 'wiring', {'scenario': 'optional', 'x': x, 'e': e})
            b1, b2 = with_extra.tasks['base'].name_for_persistence, without.tasks['base'].name_for_persistence
            ctx.check(to_bool_term(b1 == b2), 'wiring', {'scenario': 'optional-base', 'x': x, 'e': e})
        elif kind == 'distance':
            x1, x2, r1, r2 = Q('x1'), Q('x2'), I('r1'), I('r2')
            c1, c2 = two_chains(fs, family.DIAMOND, {'x': x1, 'right_value': r1}, {'x': x2, 'right_value': r2})
            dx = z3.Not(py_eq(x1, x2))
            dr = z3.Not(py_eq(r1, r2))
            for t, dep in (('src', dx), ('g:left', dx), ('g:h:right', z3.Or(dx, dr)), ('sink', z3.Or(dx, dr))):
                k1, k2 = c1.tasks[t].name_for_persistence, c2.tasks[t].name_for_persistence
                ctx.check(z3.Implies(dep, keys_differ(k1, k2)), 'distinct-values=>distinct-keys',
                          {'scenario': 'distance', 'task': t, 'v1': [x1, r1], 'v2': [x2, r2]})
                if t == 'g:left':
                    # a change of `right_value` alone must not move the unrelated branch (no over-invalidation
                    # is not demanded by C03; only recorded through the reach label)
                    ctx.reach('distance:left')
        elif kind == 'floats':
            pool = [0.5, 1.5, 1e22, -2.5, 1e-7, 123456789.125]
            i, j = ctx.choice('i', len(pool)), ctx.choice('j', len(pool))
            w1, w2 = ctx.choice('w1', 2), ctx.choice('w2', 2)
            va = pool[i] if w1 == 0 else [pool[i]]
            vb = pool[j] if w2 == 0 else [pool[j]]
            c1, c2 = two_chains(fs, HOLD, {'v': va}, {'v': vb})
            k1, k2 = c1.tasks['holder'].name_for_persistence, c2.tasks['holder'].name_for_persistence
            ctx.check(z3.Implies(z3.BoolVal(va != vb), to_bool_term(k1 != k2)), 'distinct-values=>distinct-keys',
                      {'scenario': 'value', 'v1': va, 'v2': vb})
    return scenario


def run_case(case, tier):
    kind, depth, pairs = case
    keylib.setup(full=True, hash_mode='uf')
    tmo = 30000 if tier == 'quick' else 90000
    if kind in ('shapes', 'shapes3'):
        sh = shapes(2, 2) if kind == 'shapes' else shapes(3, 1)
        ctxs = [explore.explore(pair_harness(sh[i], sh[j], (i, j)), max_paths=400, decide_timeout_ms=tmo)
                for (i, j) in pairs]
        return driver.merge_results([driver.result_from_ctx(c) for c in ctxs])
    ctx = explore.explore(make_harness(case, tier), max_paths=2000, decide_timeout_ms=tmo)
    return driver.result_from_ctx(ctx)


def match_finding(spec, v, listed):
    """The quote finding: some string leaf or mapping key of the counterexample contains an apostrophe."""
    info = spec.get('info') or {}

    def strings(x):
        if isinstance(x, str):
            yield x
        elif isinstance(x, dict):
            for k, y in x.items():
                yield from strings(k)
                yield from strings(y)
        elif isinstance(x, (list, tuple)):
            for y in x:
                yield from strings(y)
    if any(f['id'] == QUOTE for f in listed) and info.get('scenario') in ('value', 'registry', 'distance') and any(
            "'" in s for s in strings([info.get('v1'), info.get('v2')])):
        return QUOTE
    return None
