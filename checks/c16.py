"""C16 — `cached` keys identify the call, not how it was written.

sym:  the real cached.__call__ / __get__ with SYMBOLIC argument values (unbounded integers / strings) for a family of
      signatures; two calls whose spelling (positional / keyword / default omitted, keyword order) is a symbolic
      choice; the standard-library json.dumps the key is built with is replaced by a canonical key object whose
      equality is decided by the solver (contract: injective on JSON-distinguishable values, insensitive to insertion
      order).  Asserted: executions == 1 exactly when the two bindings are equal (two solver queries per path).
conc: concrete argument values (nested mappings in permuted insertion order, lists, unicode, numbers) through the real
      json.dumps and the object's own InMemoryCache / JsonCache: methods, versions, ignored arguments, control keywords.
"""
import itertools
import z3

from sx import explore, driver, instr, replay as _rp
from sx.sym import Sym, to_bool_term
from checks import keylib
from checks.c01 import value_eq

PROPERTY = 'C16'
FUNCTIONS = ['taskchain.cache.cached']
EXPLANATION = ('Symbolic execution of the real cached decorator: argument values are SMT variables, the spelling of '
               'each of two calls is a symbolic choice; the key text is abstracted by a canonical key object and the '
               'cache by a linear-search store whose key comparison is a solver query. Per path: "one execution" '
               'must imply the bindings are equal for all values, "two executions" that they differ for all values. '
               'Concrete values go through the real json.dumps and real caches.')
ASSUMPTIONS = ['json.dumps(d, sort_keys=True) abstracted as a canonical sorted tuple of (name, value) for symbolic values '
               '(validated against the real json.dumps on every concrete run)', 'file system = MFS model']
OUTSIDE = ['custom key functions', 'more than 4 parameters', 'argument values that are not JSON-serialisable']
REACH = ['one-entry<=>same-binding', 'methods-and-versions-separate', 'control-keywords', 'ignored-arguments']

SIGS = {
    'a,b=2,*,c=3': (['a', 'b'], {'b': 2}, ['c'], {'c': 3}),
    'a': (['a'], {}, [], {}),
    'a,b=2': (['a', 'b'], {'b': 2}, [], {}),
    '*,c=3,d=4': ([], {}, ['c', 'd'], {'c': 3, 'd': 4}),
    'a,*,verbose=False': (['a'], {}, ['verbose'], {'verbose': False}),
    'a,b=2,c=5,*,d=3': (['a', 'b', 'c'], {'b': 2, 'c': 5}, ['d'], {'d': 3}),
}


def bounds(tier):
    return {'signatures': sorted(s for s in SIGS if tier == 'thorough' or s != 'a,b=2,c=5,*,d=3'), 'calls': 2, 'spellings': 'positional / keyword / default omitted, both keyword orders',
            'decorator_forms': ['@cached', '@cached(...)'], 'values': 'symbolic ints/strings; concrete pool for real json'}


def cases(tier):
    sigs = [s for s in SIGS if tier == 'thorough' or s != 'a,b=2,c=5,*,d=3']
    out = [('sym', s, form) for s in sigs for form in ('plain', 'call')]
    out += [('conc', i, 0) for i in range(4)]
    return out


class KeyObj:
    """canonical cache key: sorted (name, value) pairs; equality = names equal and values equal (solver)"""

    def __init__(self, items):
        self.items = items

    def __eq__(self, o):
        if not isinstance(o, KeyObj) or [n for n, _ in self.items] != [n for n, _ in o.items]:
            return False
        from sx.sym import mkbool
        return mkbool(z3.And([value_eq(a, b) for (_, a), (_, b) in zip(self.items, o.items)] + [z3.BoolVal(True)]))

    def __hash__(self):
        raise TypeError('symbolic key')


class JsonStub:
    def __init__(self, real):
        self.real = real

    def dumps(self, d, sort_keys=False, **kw):
        # always the canonical key object in the symbolic harness: a concrete binding (all defaults) must be
        # comparable with a symbolic one
        items = sorted(d.items()) if sort_keys else list(d.items())
        return KeyObj(items)

    def __getattr__(self, n):
        return getattr(self.real, n)


class SymCache:
    """taskchain.cache.Cache over a list with solver-decided key equality"""

    def __init__(self, C):
        self.C = C
        self.entries = []
        self.subs = {}

    def _find(self, key):
        for e in self.entries:
            r = (e[0] == key)
            if r is True or (r is not False and bool(r)):
                return e
        return None

    def get(self, key):
        e = self._find(key)
        return e[1] if e else self.C.NO_VALUE

    def get_or_compute(self, key, computer, force=False):
        e = self._find(key)
        if e is not None and not force:
            return e[1]
        v = computer()
        if e is not None:
            e[1] = v
        else:
            self.entries.append([key, v])
        return v

    def subcache(self, name):
        return self.subs.setdefault(name, SymCache(self.C))


def make_class(C, sig, form, log, cache_obj=None, **deco):
    pos, pdef, kwo, kdef = SIGS[sig]
    params = ['self'] + [p if p not in pdef else f'{p}={pdef[p]!r}' for p in pos]
    if kwo:
        params += ['*'] + [f'{k}={kdef[k]!r}' for k in kwo]
    names = pos + kwo
    src = f"def m({', '.join(params)}):\n    log.append(('m', [{', '.join(names)}]))\n    return ('result', len(log))\n"
    src2 = src.replace('def m(', 'def other(').replace("('m',", "('other',")
    ns = {'log': log}
    exec(src, ns)
    exec(src2, ns)
    if form == 'plain' and not deco and cache_obj is None:
        dm, do = C.cached(ns['m']), C.cached(ns['other'])
    else:
        dm = C.cached(cache_obj, **deco)(ns['m'])
        do = C.cached(cache_obj, **deco)(ns['other'])
    return type('Obj', (), {'m': dm, 'other': do})


def make_harness(case, tier):
    if case[0] == 'sym':
        return sym(case)
    return conc(case)


def spell(ctx, tag, sig, vals):
    """choose how a call is written; returns (args, kwargs, binding dict incl. defaults)"""
    pos, pdef, kwo, kdef = SIGS[sig]
    args, kwargs, binding = [], {}, {}
    positional_ok = True
    order = []
    for p in pos:
        omit = p in pdef and ctx.flag(f'{tag}_omit_{p}')
        if omit:
            binding[p] = pdef[p]
            positional_ok = False
            continue
        binding[p] = vals[p]
        if positional_ok and not ctx.flag(f'{tag}_kw_{p}'):
            args.append(vals[p])
        else:
            positional_ok = False
            order.append(p)
    for k in kwo:
        if ctx.flag(f'{tag}_omit_{k}'):
            binding[k] = kdef[k]
        else:
            binding[k] = vals[k]
            order.append(k)
    if len(order) > 1 and ctx.flag(f'{tag}_rev'):
        order.reverse()
    for n in order:
        kwargs[n] = vals[n]
    return args, kwargs, binding


def sym(case):
    _, sig, form = case
    keylib.setup(full=True, hash_mode='auto')

    def harness(ctx):
        import taskchain.cache as C
        import json as real_json
        C.orig_json = JsonStub(real_json) if not keylib.in_replay() else real_json
        pos, pdef, kwo, kdef = SIGS[sig]
        names = pos + kwo
        log = []
        store = SymCache(C)
        ignore = ['verbose'] if 'verbose' in names else None
        if form == 'plain':
            cls = make_class(C, sig, form, log)
            obj = cls()
            obj.cache = store
        else:
            kw = {'ignore_kwargs': ignore} if ignore else {}
            cls = make_class(C, sig, form, log, cache_obj=store, **kw)
            obj = cls()

        def values(tag):
            v = {}
            for n in names:
                if n == 'verbose':
                    v[n] = ctx.sym_bool(f'{tag}_{n}')
                elif n == 'a' and ctx.flag(f'{tag}_a_is_str'):
                    v[n] = ctx.sym_str(f'{tag}_{n}s')
                else:
                    v[n] = ctx.sym_int(f'{tag}_{n}')
            return v
        v1, v2 = values('x'), values('y')
        a1, k1, b1 = spell(ctx, 'c1', sig, v1)
        a2, k2, b2 = spell(ctx, 'c2', sig, v2)
        info = {'sig': sig, 'form': form, 'call1': [a1, k1], 'call2': [a2, k2]}
        r1 = obj.m(*a1, **dict(k1))
        r2 = obj.m(*a2, **dict(k2))
        considered = [n for n in names if not (form == 'call' and ignore and n in ignore)]
        same = z3.And([value_eq(b1[n], b2[n]) for n in considered] + [z3.BoolVal(True)])
        n_exec = len(log)
        if n_exec == 1:
            ctx.check(same, 'one-entry<=>same-binding', dict(info, executions=1))
            ctx.check_concrete(r1 == r2, 'one-entry<=>same-binding', dict(info, results=[repr(r1), repr(r2)]))
        else:
            ctx.check(z3.Not(same), 'one-entry<=>same-binding', dict(info, executions=n_exec))
        # the method received the values of the first spelling, bound to the right parameters
        got = log[0][1]
        ctx.check(z3.And([value_eq(g, b1[n]) for g, n in zip(got, names)] + [z3.BoolVal(True)]), 'binding-passed',
                  dict(info, received=got))
    return harness


def conc(case):
    _, i, _ = case
    keylib.setup(full=True, hash_mode='auto')
    POOL = [({'k': {'x': 1, 'y': [1, 2]}, 'z': 0}, {'z': 0, 'k': {'y': [1, 2], 'x': 1}}),
            ([{'b': 1, 'a': 2}], [{'a': 2, 'b': 1}]), ('ünï \U0001f600', 'ünï \U0001f600'), (1.5, 1.5)]

    def harness(ctx):
        import taskchain.cache as C
        import json as real_json
        C.orig_json = real_json
        fs = keylib.fresh_fs()
        log = []
        v, w = POOL[i]
        sig = 'a,b=2,*,c=3'
        use_file = ctx.flag('json_cache')
        version = [None, 'v1'][ctx.choice('version', 2)]
        deco = {'version': version} if version else {}
        cls = make_class(C, sig, 'call', log, **deco)
        cls2 = make_class(C, sig, 'call', [], **({'version': 'v2'}))
        obj = cls()
        obj.cache = C.JsonCache(fs.path('/cache')) if use_file else C.InMemoryCache()
        info = {'arg': repr(v)[:100], 'file_cache': use_file, 'version': version}
        r1 = obj.m(v, 5)
        r2 = obj.m(a=w, b=5, c=3)
        ctx.check_concrete(len(log) == 1 and r1 == r2 or (use_file and len(log) == 1 and list(r1) == list(r2)),
                           'one-entry<=>same-binding', dict(info, executions=len(log), results=[repr(r1), repr(r2)]))
        # another method with the same arguments, and another version, use other entries
        n0 = len(log)
        obj.other(v, 5)
        ctx.check_concrete(len(log) == n0 + 1, 'methods-and-versions-separate', dict(info, what='other method'))
        log2 = []
        cls3 = make_class(C, sig, 'call', log2, version='v2')
        o3 = cls3()
        o3.cache = obj.cache
        o3.m(v, 5)
        ctx.check_concrete(len(log2) == 1, 'methods-and-versions-separate', dict(info, what='other version'))
        # control keywords
        n0 = len(log)
        rf = obj.m(v, 5, force_cache=True)
        ctx.check_concrete(len(log) == n0 + 1, 'control-keywords', dict(info, kw='force_cache'))
        r3 = obj.m(v, 5)
        ctx.check_concrete(len(log) == n0 + 1 and list(r3) == list(rf), 'control-keywords', dict(info, kw='force_cache replaces'))
        n0 = len(log)
        ro = obj.m(v, 6, only_cache=True)
        ctx.check_concrete(len(log) == n0 and ro is C.NO_VALUE, 'control-keywords', dict(info, kw='only_cache miss'))
        ro2 = obj.m(v, 5, only_cache=True)
        ctx.check_concrete(len(log) == n0 and list(ro2) == list(rf), 'control-keywords', dict(info, kw='only_cache hit'))
        rs = obj.m(v, 7, store_cache_value=['stored'])
        ctx.check_concrete(len(log) == n0 and rs == ['stored'], 'control-keywords', dict(info, kw='store_cache_value'))
        rs2 = obj.m(a=w, b=7)
        ctx.check_concrete(len(log) == n0 and rs2 == ['stored'], 'control-keywords', dict(info, kw='store_cache_value then call'))
        # 2.0 == 2 and True == 1 in Python, but they are JSON-distinguishable from the defaults 2 and 3: other entries
        n0 = len(log)
        obj.m(v)
        obj.m(v, 9)
        obj.m(v, 9.0)
        obj.m(v, 2.0)
        obj.m(v, 5, c=3.0)
        obj.m(v, 5, c=True)
        ctx.check_concrete(len(log) == n0 + 6, 'one-entry<=>same-binding',
                           dict(info, what='values == to another value / to a default but JSON-distinguishable', executions=len(log) - n0))
        # a result that is None is a result: the method runs once
        logn = []
        nsn = {'log': logn}
        exec("def m(self, a):\n    log.append(a)\n    return None\n", nsn)
        clsn = type('ObjN', (), {'m': C.cached()(nsn['m'])})
        on = clsn()
        on.cache = C.JsonCache(fs.path('/cachen')) if use_file else C.InMemoryCache()
        r_a, r_b = on.m(1), on.m(a=1)
        ctx.check_concrete(len(logn) == 1 and r_a is None and r_b is None, 'one-entry<=>same-binding',
                           dict(info, what='method returning None', executions=len(logn)))
        # versions are separate from each other and from the unversioned method, whatever their value
        versions = [None, 'v1', 0, '', 'v2']
        shared = C.JsonCache(fs.path('/cachev')) if use_file else C.InMemoryCache()
        counts = []
        for ver in versions:
            lg = []
            kw = {} if ver is None else {'version': ver}
            o = make_class(C, 'a', 'call', lg, **kw)()
            o.cache = shared
            o.m(1)
            o.m(1)
            counts.append(len(lg))
        ctx.check_concrete(counts == [1] * len(versions), 'methods-and-versions-separate',
                           dict(info, versions=[repr(v) for v in versions], executions=counts))
        # ignored arguments never matter
        logi = []
        clsi = make_class(C, 'a,*,verbose=False', 'call', logi, ignore_kwargs=['verbose'])
        oi = clsi()
        oi.cache = C.InMemoryCache()
        oi.m(v, verbose=True)
        oi.m(w)
        oi.m(a=v, verbose=False)
        ctx.check_concrete(len(logi) == 1, 'ignored-arguments', dict(info, executions=len(logi)))
    return harness


def run_case(case, tier):
    ctx = explore.explore(make_harness(case, tier), max_paths=(30000 if tier == 'quick' else 1200000), time_budget_s=(400 if tier == 'quick' else 3600), decide_timeout_ms=20000)
    return driver.result_from_ctx(ctx)
