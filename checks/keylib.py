"""Shared helpers for the key-derivation checks (C02, C03, C12, C13, C01): real chains over MFS with symbolic values."""
from sx import instr, mfs, env


from sx import replay as _rp


class RealFS:
    """Replay mode: the real file system under a temporary directory."""

    def __init__(self, root):
        import pathlib
        self.root = pathlib.Path(root)
        self.n = 0

    def path(self, s='/'):
        p = self.root / s.lstrip('/')
        return p


def in_replay():
    return _rp.MODE['replay']


def setup(full=True, hash_mode='uf'):
    if _rp.MODE['replay']:
        return
    instr.install(full=full)
    instr.HASH_MODE[0] = hash_mode


def fresh_fs():
    if _rp.MODE['replay']:
        import tempfile
        fs = RealFS(tempfile.mkdtemp(dir=_rp.MODE['tmp']))
        fs.path('/data').mkdir(parents=True)
        fs.path('/cfg').mkdir(parents=True)
        return fs
    fs = mfs.FS()
    fs.path('/data').mkdir(parents=True)
    fs.path('/cfg').mkdir(parents=True)
    env.bind(fs)
    fs.writes = 0
    fs.ticks = 0
    fs.log = []
    return fs


def config(fs, classes, data, name='cfg', namespace=None, context=None, global_vars=None, uses=None):
    from taskchain import Config
    d = dict(data)
    d['tasks'] = list(classes)
    if uses:
        d['uses'] = uses
    return Config(fs.path('/data'), name=name, namespace=namespace, data=d, context=context, global_vars=global_vars)


def chain(cfg, shared=None, parameter_mode=True):
    from taskchain import Chain
    if shared is None and parameter_mode and not _rp.MODE['replay']:
        shared = instr.SymDict()
    return Chain(cfg, shared_tasks=shared, parameter_mode=parameter_mode)


class SymItems(dict):
    """A mapping whose keys may be symbolic strings (a real dict cannot hold them): taskchain only uses .items(),
    `in`, item assignment and iteration on parameter values of mapping type."""

    def __init__(self, pairs):
        super().__init__()
        self.pairs = [list(p) for p in pairs]

    def items(self):
        return [tuple(p) for p in self.pairs]

    def keys(self):
        return [p[0] for p in self.pairs]

    def values(self):
        return [p[1] for p in self.pairs]

    def __iter__(self):
        return iter(self.keys())

    def __len__(self):
        return len(self.pairs)

    def __bool__(self):
        return bool(self.pairs)

    def __contains__(self, k):
        return any(bool(p[0] == k) for p in self.pairs)

    def __getitem__(self, k):
        for p in self.pairs:
            if bool(p[0] == k):
                return p[1]
        raise KeyError('symbolic key')

    def get(self, k, default=None):
        for p in self.pairs:
            if bool(p[0] == k):
                return p[1]
        return default

    def __setitem__(self, k, v):
        for p in self.pairs:
            if bool(p[0] == k):
                p[1] = v
                return
        self.pairs.append([k, v])

    def __eq__(self, o):
        if isinstance(o, SymItems):
            return len(o.pairs) == len(self.pairs) and all(k in o and bool(o[k] == v) for k, v in self.items())
        if isinstance(o, dict):
            return len(o) == len(self.pairs) and all(k in o and bool(o[k] == v) for k, v in self.items())
        return False

    def __ne__(self, o):
        return not self.__eq__(o)

    __hash__ = None

    def __deepcopy__(self, memo):
        import copy
        return SymItems([(k, copy.deepcopy(v, memo)) for k, v in self.pairs])

    def __copy__(self):
        return SymItems(self.pairs)

    def __repr__(self):
        raise Exception('repr of SymItems outside instrumented code')
