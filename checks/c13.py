"""C13 — a MultiChain is its chains, sharing identical tasks.

sym:  MultiChain over 2-3 configs whose parameter values are symbolic (unbounded strings / integers); built through
      the real MultiChain._prepare with a symbolic-key task registry.  Per pair of corresponding tasks and per path:
      one shared object  => the solver cannot make the two computations' reference keys differ;
      two objects        => it cannot make them equal;  every member's keys equal the standalone chain's keys.
hist: request / force sequences across the member chains (symbolic choices) with concrete values: a value computed
      through one member is served from memory through the others; MultiChain.force reaches every member.
"""
import z3

from sx import explore, driver, instr, replay as _rp
from sx.sym import Sym, to_bool_term
from checks import keylib, hist
from checks.c03 import keys_differ
from checks.c12 import describe
from ref import family, evaluator
from ref.family import P, par, inp

PROPERTY = 'C13'
FUNCTIONS = ['taskchain.chain.MultiChain', 'taskchain.chain.Chain._create_task', 'taskchain.chain.Chain.force',
             'taskchain.chain.TaskParameterConfig']
EXPLANATION = ('Symbolic execution of the real MultiChain._prepare / Chain._create_task with symbolic parameter values '
               'and a symbolic-key task registry: on each path object identity of corresponding tasks is concrete and '
               'the solver decides, for all values on the path, that identity coincides with equality of the reference '
               'computation keys (two unsat queries per pair). Request/force histories across members are explored '
               'by symbolic choice on the model file system.')
ASSUMPTIONS = ['sha256[:32] = uninterpreted injective H', 'string values do not contain an apostrophe (C03-quote)',
               'file system = MFS model']
OUTSIDE = ['more than 3 member chains', 'MultiChain.force naming a task that a member lacks (not covered by the statement)']
REACH = ['shared<=>same-computation', 'member=standalone', 'served-from-memory', 'force-reaches-every-member']


def bounds(tier):
    return {'configs': '2-3', 'pipelines': ['chain3', 'diamond', 'wiring'], 'values': 'symbolic, unbounded',
            'history': 3 if tier == 'quick' else 4}


def cases(tier):
    out = [('sym', 'chain3', 2), ('sym', 'chain3', 3), ('sym', 'diamond', 2), ('sym', 'wiring', 2), ('namemode', 0, 0)]
    h = 3 if tier == 'quick' else 4
    for first in range(8):
        out.append(('hist', h, first))
    return out


def multichain(configs, symbolic=True):
    from taskchain.chain import MultiChain
    if _rp.MODE['replay'] or not symbolic:
        return MultiChain(configs)
    mc = MultiChain.__new__(MultiChain)
    mc._tasks = instr.SymDict()
    mc.chains = {}
    mc._base_configs = configs
    mc.parameter_mode = True
    mc._prepare()
    return mc


def make_harness(case, tier):
    if case[0] == 'sym':
        return sym(case)
    if case[0] == 'namemode':
        return namemode(case)
    return histories(case)


def sym(case):
    _, pipe, ncfg = case
    keylib.setup(full=True, hash_mode='uf')

    def harness(ctx):
        from taskchain import Config
        fs = keylib.fresh_fs()
        base = fs.path('/data')
        Q = lambda n: ctx.sym_str(n, exclude="'")      # noqa
        cfgs, evs, vals_all = [], [], []
        for i in range(ncfg):
            if pipe == 'chain3':
                spec = family.CHAIN3
                vals = {'x': Q(f'x{i}'), 'y': ctx.sym_int(f'y{i}')}
            elif pipe == 'diamond':
                spec = family.DIAMOND
                vals = {'x': Q(f'x{i}'), 'right_value': ctx.sym_int(f'r{i}'), 'l': Q(f'l{i}')}
            else:
                spec = None
                vals = {'s1': ctx.sym_int(f's1_{i}'), 's2': ctx.sym_int(f's2_{i}')}
            vals_all.append(vals)
            if spec is not None:
                cl = family.make_pipeline(spec)
                cfgs.append(keylib.config(fs, cl.values(), vals, name=f'c{i}'))
                evs.append(evaluator.evaluate(spec, vals))
            else:
                ds = [P('Dataset', params=[par('size')])]
                mg = [P('Merge', inputs=[inp('train::dataset', 'name'), inp('valid::dataset', 'name')]),
                      P('Report', inputs=[inp('Merge')])]
                dcl, mcl = family.make_pipeline(ds), family.make_pipeline(mg)
                ct = Config(base, name=f'tr{i}', namespace='train', data={'tasks': list(dcl.values()), 'size': vals['s1']})
                cv = Config(base, name=f'va{i}', namespace='valid', data={'tasks': list(dcl.values()), 'size': vals['s2']})
                cfgs.append(Config(base, name=f'c{i}', data={'tasks': list(mcl.values()), 'uses': [ct, cv]}))
                from ref import keyscheme as KS
                k1 = KS.digest32(KS.key_text([{'name': 'size', 'value': vals['s1']}], {}))
                k2 = KS.digest32(KS.key_text([{'name': 'size', 'value': vals['s2']}], {}))
                km = KS.digest32(KS.key_text([], {'train::dataset': k1, 'valid::dataset': k2}))
                kr = KS.digest32(KS.key_text([], {'merge': km}))
                evs.append({'train::dataset': {'key': k1}, 'valid::dataset': {'key': k2}, 'merge': {'key': km},
                            'report': {'key': kr}})
        mc = multichain(cfgs)
        info = {'pipe': pipe, 'vals': describe(vals_all)}
        names = list(evs[0])
        for i in range(ncfg):
            ch = mc[f'c{i}']
            ctx.check_concrete(set(ch.tasks) == set(names), 'member=standalone', dict(info, member=i, got=sorted(ch.tasks)))
            for n in names:
                k = ch.tasks[n].name_for_persistence
                ctx.check(z3.Not(keys_differ(k, evs[i][n]['key'])), 'member=standalone', dict(info, member=i, task=n))
        for i in range(ncfg):
            for j in range(i + 1, ncfg):
                for n in names:
                    same_obj = mc[f'c{i}'].tasks[n] is mc[f'c{j}'].tasks[n]
                    differ = keys_differ(evs[i][n]['key'], evs[j][n]['key'])
                    if same_obj:
                        ctx.check(z3.Not(differ), 'shared<=>same-computation',
                                  dict(info, task=n, members=[i, j], shared=True))
                    else:
                        ctx.check(differ, 'shared<=>same-computation', dict(info, task=n, members=[i, j], shared=False))
        # a value computed through member 0 is in memory for every member sharing the task
        if pipe == 'chain3' and ncfg == 2:
            del family.RUNLOG[:]
            for n in names:
                mc['c0'].tasks[n].value
            mark = len(family.RUNLOG)
            writes = getattr(fs, 'writes', 0)
            for n in names:
                if mc['c0'].tasks[n] is mc['c1'].tasks[n]:
                    mc['c1'].tasks[n].value
                    ctx.check_concrete(len(family.RUNLOG) == mark, 'served-from-memory', dict(info, task=n))
    return harness


def namemode(case):
    """MultiChain(configs, parameter_mode=False): every member equals the standalone name-mode chain"""
    hist.setup(full=True)

    def harness(ctx):
        from taskchain import Config, Chain
        from taskchain.chain import MultiChain
        world = hist.World(HP, HCFG)
        fs = world.fs
        cfgs, standalone = [], []
        for i in range(2):
            d = dict(HCFG[i], tasks=list(world.classes.values()))
            cfgs.append(Config(fs.path('/data'), name=f'cfg{i}', data=dict(d)))
            standalone.append(Chain(Config(fs.path('/data'), name=f'cfg{i}', data=dict(d)), parameter_mode=False))
        mc = MultiChain(cfgs, parameter_mode=False)
        for i in range(2):
            m = mc[f'cfg{i}']
            for n in HN[:3]:
                ok = (m.tasks[n].name_for_persistence == standalone[i].tasks[n].name_for_persistence == f'cfg{i}'
                      and m.tasks[n].data_path == standalone[i].tasks[n].data_path)
                ctx.check_concrete(ok, 'member=standalone', {'mode': 'name', 'member': i, 'task': n,
                                                             'key': m.tasks[n].name_for_persistence,
                                                             'standalone_key': standalone[i].tasks[n].name_for_persistence})
        # config files with the same base name in different directories are different configs
        import json
        import os
        import tempfile
        import shutil
        import ref.family_gen as FG
        for n_, c_ in world.classes.items():
            setattr(FG, n_, c_)
        d = tempfile.mkdtemp(dir=_rp.MODE['tmp']) if _rp.MODE['replay'] else tempfile.mkdtemp(prefix='c13cfg')
        try:
            # two members whose prerequisite configs are a/settings.json and b/settings.json; the prerequisite's task
            # keeps its result in memory (in name mode both would otherwise write to <task>/settings.json)
            pcl = family.make_pipeline([P('Scale', params=[par('x')], data='mem'), P('Report', inputs=[inp('Scale')])])
            for n_, c_ in pcl.items():
                setattr(FG, n_, c_)
            mains = []
            for i, (sub, xv) in enumerate((('a', 10), ('b', 20))):
                os.makedirs(os.path.join(d, sub))
                pth = os.path.join(d, sub, 'settings.json')
                with open(pth, 'w') as f:
                    json.dump({'tasks': ['ref.family_gen.Scale'], 'x': xv}, f)
                mp = os.path.join(d, f'main{i}.json')
                with open(mp, 'w') as f:
                    json.dump({'tasks': ['ref.family_gen.Report'], 'uses': [pth]}, f)
                mains.append(mp)
            try:
                mcf = MultiChain([Config(fs.path('/data2'), p_) for p_ in mains], parameter_mode=False)
                vals = [family.norm_input(mcf[f'main{i}'].tasks['report'].value) for i in (1, 0)][::-1]
                err = None
            except Exception as e:
                vals, err = None, f'{type(e).__name__}: {e}'[:150]
            exp = [{'t': 'report', 'p': {}, 'i': {'scale': {'t': 'scale', 'p': {'x': xv}, 'i': {}}}} for xv in (10, 20)]
            ctx.check_concrete(vals == exp, 'member=standalone', {'mode': 'name', 'what': 'same-named prerequisite config files',
                                                                  'got': repr(vals)[:300], 'error': err})
            # from_dir builds one chain per config file, whatever its format
            os.makedirs(os.path.join(d, 'dir'))
            with open(os.path.join(d, 'dir', 'one.json'), 'w') as f:
                json.dump({'tasks': [f'ref.family_gen.{n_}' for n_ in world.classes], 'x': 1}, f)
            with open(os.path.join(d, 'dir', 'two.yaml'), 'w') as f:
                import yaml
                yaml.safe_dump({'tasks': [f'ref.family_gen.{n_}' for n_ in world.classes], 'x': 2}, f)
            import pathlib
            mcd = MultiChain.from_dir(fs.path('/data3'), pathlib.Path(os.path.join(d, 'dir')))
            ctx.check_concrete(sorted(mcd.keys()) == ['one', 'two'], 'member=standalone',
                               {'what': 'MultiChain.from_dir over a json and a yaml config', 'chains': sorted(mcd.keys())})
        finally:
            if not _rp.MODE['replay']:
                shutil.rmtree(d, ignore_errors=True)
        # a result stored by the standalone chain is found by the member (same location)
        standalone[0].tasks['b'].value
        del family.RUNLOG[:]
        v = mc['cfg0'].tasks['b'].value
        ctx.check_concrete(not family.RUNLOG, 'member=standalone', {'mode': 'name', 'what': 'stored result reused', 'ran': list(family.RUNLOG)})
    return harness


HP = [P('A', params=[par('x')]), P('B', inputs=[inp('A')], params=[par('y', default=1)]),
      P('C', inputs=[inp('B')], data='dir'), P('D', params=[par('z', default=0)], data='mem')]
HN = ['a', 'b', 'c', 'd']
HCFG = [{'x': 1, 'y': 1}, {'x': 1, 'y': 2}, {'x': 1, 'y': 1, 'z': 5}]


def histories(case):
    _, h, first = case
    hist.setup(full=True)
    OPS = [('req', m, j) for m in range(2) for j in range(4)]
    FORCE = [('force', j, fl) for j in range(3) for fl in range(2)] + [('force-recompute-raising', 1, 0)]

    def harness(ctx):
        from taskchain import Config
        world = hist.World(HP, HCFG)
        fs = world.fs
        three = ctx.flag('three')
        cfgs = []
        for i in range(3 if three else 2):
            d = dict(HCFG[i])
            d['tasks'] = list(world.classes.values())
            cfgs.append(Config(fs.path('/data'), name=f'cfg{i}', data=d))
        mc = multichain(cfgs, symbolic=False)
        ref = hist.Ref(HP, HCFG)
        ks = [ref.build(i, registry='mc') for i in range(len(cfgs))]
        trace = [('members', len(cfgs))]
        allops = OPS + FORCE
        for step in range(h):
            op = allops[first] if step == 0 else allops[ctx.choice(f'op{step}', len(allops))]
            trace.append(op)
            info = {'trace': list(trace)}
            if op[0] == 'req':
                _, m, j = op
                name = HN[j]
                mark = len(family.RUNLOG)
                t = mc[f'cfg{m}'].tasks[name]
                got = family.norm_input(t.value)
                exp_runs, _, _ = ref.request(ks[m], name)
                own = ref.ev(ks[m])[name]['value']
                ran = [r[0] for r in family.RUNLOG[mark:]]
                ctx.check_concrete(sorted(ran) == sorted(exp_runs), 'served-from-memory',
                                   dict(info, ran=ran, expected=exp_runs))
                ctx.check_concrete(got == own, 'member=standalone', dict(info, got=repr(got)[:200], own=repr(own)[:200]))
            elif op[0] == 'force-recompute-raising':
                # forcing with recompute: an error raised by a task's run is the caller's to see
                def boom(task):
                    family.FAIL.pop('b', None)
                    raise ValueError('run failed')
                family.FAIL['b'] = boom
                try:
                    mc.force('b', recompute=True)
                    raised = None
                except ValueError as e:
                    raised = 'ValueError'
                family.FAIL.pop('b', None)
                ctx.check_concrete(raised is not None, 'force-reaches-every-member', dict(info, what='error of a forced run propagates'))
                return
            else:
                _, j, fl = op
                name = HN[j]
                mc.force(name, delete_data=bool(fl))
                for kk in ks:
                    ref.force(kk, [name], delete_data=bool(fl))
                for m, kk in enumerate(ks):
                    ch = mc[f'cfg{m}']
                    flags = {n: ch.tasks[n].is_forced for n in HN}
                    expf = {n: ref.obj(kk, n) in ref.forced for n in HN}
                    hd = {n: ch.tasks[n].has_data for n in HN}
                    exph = {n: ref.has_data(kk, n) for n in HN}
                    ctx.check_concrete(flags == expf and hd == exph, 'force-reaches-every-member',
                                       dict(info, member=m, flags=flags, expected_flags=expf, has_data=hd,
                                            expected_has_data=exph))
    return harness


def run_case(case, tier):
    ctx = explore.explore(make_harness(case, tier), max_paths=(30000 if tier == 'quick' else 1200000), time_budget_s=(500 if tier == 'quick' else 3600),
                          decide_timeout_ms=30000 if tier == 'quick' else 90000)
    return driver.result_from_ctx(ctx)
