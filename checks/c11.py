"""C11 — placeholders are substituted everywhere, once, and nothing else changes.

sym:   search_and_replace_placeholders / search_and_apply / ReprStr executed on JSON-like structures whose string
       leaves are  t0 g1 t1 [g2 t2]  with every text part t_i a brace-free SYMBOLIC string (unbounded) and every
       brace group g_i drawn from {N}, {}, {N}{M} with SYMBOLIC names N, M; global_vars as mapping or object with two
       defined names (a symbolic brace-free text and an integer / path).  Whether a name is defined is the solver's
       choice.  Result, second application, repr and copies are compared with the reference terms.
conc:  values that themselves contain placeholders, config data through Config (uses paths, context `uses`, object
       definitions), copies of configs -- concrete strings, real `re`.
"""
import copy
import json
import os
import shutil
import tempfile

import z3

from sx import explore, driver, instr, replay as _rp
from sx.sym import Sym, SymStr, to_bool_term, sx_add
from checks import keylib
from checks.c01 import value_eq
from ref import family
from ref.family import P, par, inp

PROPERTY = 'C11'
FUNCTIONS = ['taskchain.utils.data', 'taskchain.config.Config.apply_global_vars', 'taskchain.config.Context.prepare_context']
EXPLANATION = ('Symbolic execution of the real search_and_replace_placeholders / ReprStr on structured strings: text '
               'parts and placeholder names are unbounded SMT strings, so "is this name defined?" is decided by the '
               'solver on each path; the regular expression {(.*?)} is resolved on the segment structure (match '
               'boundaries are syntactic because the text atoms exclude braces) and the library\'s own callback runs. '
               'Per leaf the queries "result != reference", "second application changes something", "repr lost the '
               'placeholder form (also after copy / deepcopy)" must be unsat.')
ASSUMPTIONS = ['text parts and names contain no brace and no newline (so match boundaries are syntactic); nested-brace '
               'forms are explored with concrete strings', 'strings rendered by repr() are printable without backslash']
OUTSIDE = ['placeholders inside mapping keys (the statement speaks of strings in the data)', 'more than two groups per string']
REACH = ['substituted=reference', 'idempotent', 'repr-keeps-placeholder', 'behaves-as-str', 'uses-substituted']
NESTED = 'C11-nested-braces'


def bounds(tier):
    return {'groups_per_string': 2 if tier == 'quick' else 3, 'structure_depth': 3, 'defined_names': 2, 'global_vars': ['mapping', 'object'],
            'text_and_names': 'unbounded symbolic strings without braces'}


def cases(tier):
    shapes = ('one', 'two', 'adjacent', 'empty') if tier == 'quick' else ('one', 'two', 'adjacent', 'empty', 'three')
    out = [('sym', shape, gv) for shape in shapes for gv in ('mapping', 'object')]
    out += [('nested', 0, 0), ('twice', 0, 0), ('uses', 0, 0), ('config', 0, 0), ('ctxreuse', 0, 0)]
    return out


class GV:
    pass


def make_harness(case, tier):
    kind = case[0]
    keylib.setup(full=True, hash_mode='auto')
    return {'sym': sym, 'nested': nested, 'twice': twice, 'uses': uses, 'config': config, 'ctxreuse': ctxreuse}[kind](case)


def sym(case):
    _, shape, gvform = case

    def harness(ctx):
        from taskchain.utils.data import search_and_replace_placeholders, ReprStr
        T = lambda n: ctx.sym_str(n, exclude='{}\n\\\'"\r\t')      # noqa
        vA = T('valA')
        if gvform == 'mapping':
            gv = {'A': vA, 'B': 5}
        else:
            gv = GV()
            gv.A, gv.B = vA, 5
        N, M = T('N'), T('M')
        t0, t1, t2 = T('t0'), T('t1'), T('t2')

        def group(name):
            return sx_add(sx_add('{', name), '}')

        def ref_group(name):
            """reference: replaced by str(value) iff the name is defined"""
            isA = to_bool_term(name == 'A') if isinstance(name, Sym) else z3.BoolVal(name == 'A')
            isB = to_bool_term(name == 'B') if isinstance(name, Sym) else z3.BoolVal(name == 'B')
            keep = group(name)
            kt = keep.t if isinstance(keep, Sym) else z3.StringVal(keep)
            vt = vA.t if isinstance(vA, Sym) else z3.StringVal(vA)
            return z3.If(isA, vt, z3.If(isB, z3.StringVal('5'), kt)), z3.Or(isA, isB)
        if shape == 'one':
            s = sx_add(sx_add(t0, group(N)), t1)
            parts = [t0, ('g', N), t1]
        elif shape == 'two':
            s = sx_add(sx_add(sx_add(sx_add(t0, group(N)), t1), group(M)), t2)
            parts = [t0, ('g', N), t1, ('g', M), t2]
        elif shape == 'adjacent':
            s = sx_add(sx_add(sx_add(t0, group(N)), group(M)), t2)
            parts = [t0, ('g', N), ('g', M), t2]
        elif shape == 'three':
            K = T('K')
            s = sx_add(sx_add(sx_add(sx_add(sx_add(t0, group(N)), t1), group(M)), group(K)), t2)
            parts = [t0, ('g', N), t1, ('g', M), ('g', K), t2]
        else:
            s = sx_add(sx_add(t0, '{}'), t1)
            parts = [t0, ('g', ''), t1]
        exp = z3.StringVal('')
        any_defined = z3.BoolVal(False)
        for p_ in parts:
            if isinstance(p_, tuple):
                term, d = ref_group(p_[1])
                any_defined = z3.Or(any_defined, d)
            else:
                term = p_.t if isinstance(p_, Sym) else z3.StringVal(p_)
            exp = z3.Concat(exp, term)
        other = [1, None, 2.5, True]
        import collections
        inner = collections.OrderedDict([('k', s), ('n', 7), ('lst', [s, other])]) if ctx.flag('ordered_dict') else {'k': s, 'n': 7, 'lst': [s, other]}
        data = {'top': s, 'nested': [inner, [4, None]], 'num': 3}
        info = {'shape': shape, 'global_vars': gvform, 'parts': [p_ if not isinstance(p_, tuple) else {'group': p_[1]} for p_ in parts],
                'valA': vA}
        ret = search_and_replace_placeholders(data, gv)
        ctx.check_concrete(ret is data and data['nested'][0] is inner and inner['lst'][1] is other and other == [1, None, 2.5, True]
                           and data['num'] == 3 and inner['n'] == 7, 'substituted=reference', dict(info, what='containers / non-strings'))
        leaves = [data['top'], inner['k'], inner['lst'][0]]
        direct = search_and_replace_placeholders(s, gv)
        leaves.append(direct)
        for i, leaf in enumerate(leaves):
            lt = leaf.t if isinstance(leaf, Sym) else z3.StringVal(leaf)
            ctx.check(lt == exp, 'substituted=reference', dict(info, leaf=i))
            # representation for persistence keeps the placeholder form exactly when something was substituted
            st = s.t if isinstance(s, Sym) else z3.StringVal(s)
            r = instr.SX.b(repr, 'repr', leaf)
            rt = r.t if isinstance(r, Sym) else z3.StringVal(r)
            keep_form = z3.Concat(z3.StringVal("'"), st, z3.StringVal("'"))
            plain_form = z3.Concat(z3.StringVal("'"), lt, z3.StringVal("'"))
            ctx.check(rt == z3.If(any_defined, keep_form, plain_form), 'repr-keeps-placeholder', dict(info, leaf=i))
            for how, cp in (('copy', copy.copy(leaf)), ('deepcopy', copy.deepcopy([leaf])[0])):
                r2 = instr.SX.b(repr, 'repr', cp)
                r2t = r2.t if isinstance(r2, Sym) else z3.StringVal(r2)
                c2t = cp.t if isinstance(cp, Sym) else z3.StringVal(cp)
                ctx.check(z3.And(r2t == rt, c2t == lt), 'repr-keeps-placeholder', dict(info, leaf=i, after=how))
            ctx.check_concrete(isinstance(leaf, str), 'behaves-as-str', dict(info, leaf=i, what='isinstance str'))
            cat = sx_add(leaf, '/x')
            ct = cat.t if isinstance(cat, Sym) else z3.StringVal(cat)
            ctx.check(ct == z3.Concat(lt, z3.StringVal('/x')), 'behaves-as-str', dict(info, leaf=i, what='concatenation'))
        # applying the substitution again changes nothing (values and representations)
        before = [(l.t if isinstance(l, Sym) else z3.StringVal(l)) for l in leaves[:3]]
        breprs = [instr.SX.b(repr, 'repr', l) for l in leaves[:3]]
        search_and_replace_placeholders(data, gv)
        again = [data['top'], inner['k'], inner['lst'][0]]
        for i, (b, l, br) in enumerate(zip(before, again, breprs)):
            lt = l.t if isinstance(l, Sym) else z3.StringVal(l)
            r = instr.SX.b(repr, 'repr', l)
            ctx.check(z3.And(lt == b, (r.t if isinstance(r, Sym) else z3.StringVal(r)) == (br.t if isinstance(br, Sym) else z3.StringVal(br))),
                      'idempotent', dict(info, leaf=i))
    return harness


def nested(case):
    def harness(ctx):
        from taskchain.utils.data import search_and_replace_placeholders
        forms = ['{{A}', '{A}}', '{{A}}', 'x{{A}}y{A}', '{ {A} }', '{A}{A}', '{A', 'A}', '{}{A}', '{\n}{A}']
        f = forms[ctx.choice('form', len(forms))]
        gv = {'A': 'VAL', 'B': 5}
        got = search_and_replace_placeholders([f], gv)[0]
        # reference: every {NAME} with a defined NAME is replaced, everything else stays
        import re
        exp = f
        for name, val in gv.items():
            exp = exp.replace('{' + name + '}', str(val))
        known = NESTED if ('{{' in f or '{ {' in f) else None
        ctx.check_concrete(str(got) == exp, 'substituted=reference', {'string': f, 'got': str(got), 'expected': exp},
                           known_id=known)
        once = str(got)
        again = search_and_replace_placeholders([got], gv)[0]
        ctx.check_concrete(str(again) == once and repr(again) == repr(got), 'idempotent', {'string': f, 'again': str(again)})
    return harness


def twice(case):
    def harness(ctx):
        from taskchain.utils.data import search_and_replace_placeholders
        from taskchain import Config, Chain
        fs = keylib.fresh_fs()
        gvs = [{'LAYOUT': '{STAGE}/v1', 'STAGE': 'prod'}, {'A': '{A}', 'B': 'b'}, {'A': '{B}', 'B': '{A}'}]
        gv = gvs[ctx.choice('gv', len(gvs))]
        names = list(gv)
        data = {'p': '{' + names[0] + '}/data', 'q': ['{' + names[1] + '}', 3], 'r': 'plain'}
        d1 = copy.deepcopy(data)
        search_and_replace_placeholders(d1, gv)
        first = (str(d1['p']), str(d1['q'][0]), repr(d1['p']), repr(d1['q'][0]))
        exp = (str(gv[names[0]]) + '/data', str(gv[names[1]]))
        ctx.check_concrete(first[:2] == exp, 'substituted=reference', {'global_vars': gv, 'got': first[:2], 'expected': exp})
        search_and_replace_placeholders(d1, gv)
        second = (str(d1['p']), str(d1['q'][0]), repr(d1['p']), repr(d1['q'][0]))
        ctx.check_concrete(first == second and d1['r'] == 'plain', 'idempotent', {'global_vars': gv, 'first': first, 'second': second})
        # through the library: a Config object listed in `uses` is prepared a second time by the chain
        spec = [P('Show', params=[par('p'), par('q')])]
        cl = family.make_pipeline(spec)
        inner = Config(fs.path('/data'), name='inner', data=dict(copy.deepcopy(data), tasks=list(cl.values())), global_vars=gv)
        outer = Config(fs.path('/data'), name='outer', data={'uses': [inner]}, global_vars=gv)
        ch = keylib.chain(outer, shared={})
        t = ch.tasks['show']
        got = (str(t.params['p']), str(t.params['q'][0]))
        ctx.check_concrete(got == exp, 'idempotent', {'global_vars': gv, 'through': 'Config in uses', 'got': got, 'expected': exp})
        ctx.check_concrete(dict(t.parameters.items())['p'].value_repr() == repr(data['p']), 'repr-keeps-placeholder',
                           {'global_vars': gv, 'value_repr': dict(t.parameters.items())['p'].value_repr()})
    return harness


def uses(case):
    def harness(ctx):
        from taskchain import Config
        fs = keylib.fresh_fs()
        d = tempfile.mkdtemp(dir=_rp.MODE['tmp']) if _rp.MODE['replay'] else tempfile.mkdtemp(prefix='c11cfg')
        try:
            import ref.family_gen as FG
            spec = [P('Show', params=[par('p', default='dp'), par('c1', default=0), par('c2', default=0)])]
            cl = family.make_pipeline(spec)
            FG.Show = cl['Show']
            os.makedirs(os.path.join(d, 'cfg'))
            os.makedirs(os.path.join(d, 'ctx'))
            with open(os.path.join(d, 'cfg', 'leaf.json'), 'w') as f:
                json.dump({'tasks': ['ref.family_gen.Show'], 'p': '{ROOT}/file'}, f)
            with open(os.path.join(d, 'cfg', 'main.json'), 'w') as f:
                json.dump({'uses': ['{CFG}/leaf.json as l']}, f)
            with open(os.path.join(d, 'ctx', 'second.json'), 'w') as f:
                json.dump({'c2': 2}, f)
            with open(os.path.join(d, 'ctx', 'first.json'), 'w') as f:
                json.dump({'c1': 1, 'uses': ['{CTX}/second.json']}, f)
            with open(os.path.join(d, 'ctx', 'zero.json'), 'w') as f:
                json.dump({'uses': '{CTX}/first.json'}, f)          # single-string form
            objform = ctx.flag('object')
            vals = {'CFG': os.path.join(d, 'cfg'), 'CTX': os.path.join(d, 'ctx'), 'ROOT': '/r'}
            if objform:
                gv = GV()
                for k, v in vals.items():
                    setattr(gv, k, v)
            else:
                gv = vals
            level = ctx.choice('context_level', 3)
            context = [None, os.path.join(d, 'ctx', 'first.json'), os.path.join(d, 'ctx', 'zero.json')][level]
            info = {'global_vars': 'object' if objform else 'mapping', 'context_uses_levels': level}
            try:
                ch = keylib.chain(Config(fs.path('/data'), os.path.join(d, 'cfg', 'main.json'), global_vars=gv, context=context), shared={})
                t = ch.tasks['l::show']
                got = (str(t.params['p']), t.params['c1'], t.params['c2'])
                err = None
            except Exception as e:
                got, err = None, f'{type(e).__name__}: {e}'[:200]
            exp = ('/r/file', 1 if level else 0, 2 if level else 0)
            ctx.check_concrete(got == exp, 'uses-substituted', dict(info, got=got, expected=exp, error=err))
        finally:
            if not _rp.MODE['replay']:
                shutil.rmtree(d, ignore_errors=True)
    return harness


def config(case):
    def harness(ctx):
        from taskchain import Config
        from ref import pobjects as PO
        fs = keylib.fresh_fs()
        spec = [P('Show', params=[par('p'), par('o'), par('m')])]
        cl = family.make_pipeline(spec)
        gv = {'ROOT': '/r', 'N': 3}
        data = {'tasks': list(cl.values()), 'p': '{ROOT}/x', 'm': {'deep': ['{ROOT}/{N}', {'k': '{MISSING}'}]},
                'o': {'class': 'ref.pobjects.Custom', 'args': ['{ROOT}/arg'], 'kwargs': {'b': 2}}}
        via_context = ctx.flag('value_from_context')
        context = {'p': '{ROOT}/ctx'} if via_context else None
        cfg = Config(fs.path('/data'), name='c', data=data, global_vars=gv, context=context)
        step = ctx.choice('copy', 3)
        if step == 1:
            cfg2 = copy.deepcopy(cfg.data)
            pv = cfg2['p']
        elif step == 2:
            pv = copy.copy(cfg.data['p'])
        else:
            pv = cfg.data['p']
        ch = keylib.chain(cfg, shared={})
        t = ch.tasks['show']
        info = {'value_from_context': via_context, 'copy': ['none', 'deepcopy of config data', 'copy of the string'][step]}
        expp = '/r/ctx' if via_context else '/r/x'
        ctx.check_concrete(str(t.params['p']) == expp and str(pv) == expp and t.params['m'] == {'deep': ['/r/3', {'k': '{MISSING}'}]}
                           and t.params['o'].a == '/r/arg', 'substituted=reference',
                           dict(info, p=str(t.params['p']), m=repr(t.params['m']), o=t.params['o'].a))
        form = "'{ROOT}/ctx'" if via_context else "'{ROOT}/x'"
        ctx.check_concrete(repr(pv) == form and dict(t.parameters.items())['p'].value_repr() == form
                           and "'{ROOT}/{N}'" in dict(t.parameters.items())['m'].value_repr()
                           and dict(t.parameters.items())['o'].value_repr() == "Custom(a='{ROOT}/arg', b=2)",
                           'repr-keeps-placeholder', dict(info, repr_p=repr(pv), value_repr_p=dict(t.parameters.items())['p'].value_repr(),
                                                          value_repr_m=dict(t.parameters.items())['m'].value_repr(),
                                                          value_repr_o=dict(t.parameters.items())['o'].value_repr()))
        s = t.params['p']
        ctx.check_concrete(isinstance(s, str) and s == expp and s + '!' == expp + '!' and s[:2] == expp[:2] and
                           s.split('/')[-1] == expp.split('/')[-1] and {s: 1}[expp] == 1, 'behaves-as-str', dict(info))
    return harness


def ctxreuse(case):
    """one context (dict or Context object) with nested values under for_namespaces, used for two configs with
    different global_vars: each config gets its own substitution and the caller's context keeps its placeholders"""
    def harness(ctx):
        from taskchain import Config
        from taskchain.config import Context
        fs = keylib.fresh_fs()
        spec = [P('Show', params=[par('p', default='dp'), par('m', default=None)])]
        data = {'p': '{ROOT}/g', 'for_namespaces': {'ns': {'m': {'deep': ['{ROOT}/x', {'k': '{ROOT}/y'}]}, 'p': '{ROOT}/n'}}}
        as_obj = ctx.flag('context_object')
        context = Context.prepare_context(copy.deepcopy(data)) if as_obj else copy.deepcopy(data)
        out = []
        for root in ('/first', '/second'):
            cl = family.make_pipeline(spec)
            mine = Config(fs.path('/data'), name='mine', namespace='ns', data={'tasks': list(cl.values())}, global_vars={'ROOT': root})
            ch = keylib.chain(Config(fs.path('/data'), name='main', data={'uses': [mine]}, global_vars={'ROOT': root},
                                     context=context), shared={})
            t = ch.tasks['ns::show']
            out.append((str(t.params['p']), str(t.params['m']['deep'][0]), str(t.params['m']['deep'][1]['k'])))
        exp = [(f'{r}/n', f'{r}/x', f'{r}/y') for r in ('/first', '/second')]
        ctx.check_concrete(out == exp, 'substituted=reference', {'context_object': as_obj, 'got': out, 'expected': exp})
        src = context.for_namespaces['ns'] if as_obj else context['for_namespaces']['ns']
        ctx.check_concrete(str(src['m']['deep'][0]) == '{ROOT}/x' and str(src['m']['deep'][1]['k']) == '{ROOT}/y',
                           'substituted=reference', {'context_object': as_obj, 'what': 'the caller\'s context after use',
                                                     'got': repr(src['m'])[:200]})
    return harness


def run_case(case, tier):
    ctx = explore.explore(make_harness(case, tier), max_paths=(5000 if tier == 'quick' else 200000), time_budget_s=(400 if tier == 'quick' else 3600), decide_timeout_ms=30000)
    return driver.result_from_ctx(ctx)
