"""C08 — the dependency graph is exactly the declared one, and acyclic.

sym:   Chain._process_dependencies / _expand_tasks / _find_task_full_name called on a task map whose namespace and task
       names are SYMBOLIC strings (unbounded; the solver decides whether one is a textual prefix of another), with light
       task doubles and every by-name / by-class declaration form; the resolved input must be the task of the
       declaring task's own namespace for all values.
conc:  whole chains for family pipelines under several mountings (root, one namespace, the same pipeline under two
       namespaces, nested), task declaration orders, exclusions, abstract tasks, adversarial concrete names (solver
       witnesses such as namespace `train` / task `train_x`): tasks, edges, closures equal the reference; dangling
       inputs and cycles make construction raise.
"""
import itertools
import z3

from sx import explore, driver, instr, replay as _rp
from sx.sym import Sym, SymStr, to_bool_term
from checks import keylib, hist
from ref import family, evaluator
from ref.family import P, par, inp

PROPERTY = 'C08'
FUNCTIONS = ['taskchain.chain.Chain._process_dependencies', 'taskchain.chain.Chain._expand_tasks',
             'taskchain.chain.Chain._create_tasks', 'taskchain.chain.Chain._build_graph', 'taskchain.chain.Chain',
             'taskchain.task._find_task_full_name']
EXPLANATION = ('sym: symbolic execution of the real dependency resolution with namespace / task-name strings as '
               'unbounded SMT variables and a symbolic-key task map; per path the solver is asked for names under '
               'which the resolved input is not the declaring namespace\'s task. conc: real chains for the family '
               'under mountings, orders and exclusions chosen symbolically; tasks, edges and closures are compared '
               'with the reference evaluator; cyclic and dangling declarations must raise.')
ASSUMPTIONS = ['name components contain neither ":" nor "~"', 'task doubles stand in for Task objects in the symbolic unit harness']
OUTSIDE = ['pattern inputs with symbolic names (patterns are exercised with concrete names)', 'more than 3 mountings']
SHARED = 'C08-shared-mount-pattern'
REACH = ['resolved-in-own-namespace', 'graph=declared', 'closures', 'cycle-or-dangling-raises']


def bounds(tier):
    return {'task_orders': 'first 6 permutations' if tier == 'quick' else 'all permutations (up to 120)',
            'sym': {'tasks_in_map': 3, 'namespace_depth': '0-2' if tier == 'quick' else '0-3', 'names': 'unbounded strings without ":"'},
            'conc': {'pipelines': sorted(PIPES), 'mountings': MOUNTS, 'cycle_lengths': [1, 2, 3]}}


class Cfg:
    def __init__(self, ns):
        self.namespace = ns


class Double:
    """what _process_dependencies needs of a task"""

    def __init__(self, name, ns, inputs):
        self.name = name
        self.cfg = Cfg(ns)
        self.meta = {'input_tasks': inputs, 'parameters': []}
        self.got = None

    def get_config(self):
        return self.cfg

    def set_input_tasks(self, m):
        self.got = m

    def __str__(self):
        return 'double'


class SymInputTasks(instr.SymDict):
    """drop-in for taskchain.task.InputTasks with symbolic-key lookup"""

    def __init__(self):
        super().__init__()
        self.task_list = []

    def __setitem__(self, k, v):
        if k not in self:
            self.task_list.append(v)
        super().__setitem__(k, v)


PREFIXY = [P('TrainX', meta_name='train_x', params=[par('x', default=1)]),
           P('Train', meta_name='train', inputs=[inp('train_x', 'name')]),
           P('Model', inputs=[inp('TrainX'), inp('train', 'name')], group='train')]
EXCL = [P('Load', params=[par('x', default=1)]), P('Report', inputs=[inp('Load')]), P('Extra', inputs=[inp('load', 'name')])]
ABSTRACT = [P('Base', abstract=True, params=[par('x', default=1)]), P('Impl', abstract_false=True, params=[par('x', default=1)]),
            P('Use', inputs=[inp('Impl')])]
EXACTPAT = [P('PartA', group='parts', params=[par('x', default=1)]), P('PartAb', group='parts', meta_name='part_ab'),
            P('PartAReport', group='parts', meta_name='part_a_report', inputs=[inp('PartA')]),
            P('Exact', inputs=[inp('~parts:part_a', 'name')]), P('Alt', inputs=[inp('~parts:part_(a|ab)', 'name')])]
SHORTFORM = [P('Scale', group='features', params=[par('x', default=1)]), P('Scale2', meta_name='scale'),
             P('UseBoth', inputs=[inp('features:scale', 'name'), inp('scale', 'name')]),
             P('UseBothRev', inputs=[inp('scale', 'name'), inp('features:scale', 'name')])]
PIPES = {'exactpat': EXACTPAT, 'shortform': SHORTFORM, 'diamond': family.DIAMOND, 'pattern': family.PATTERN, 'optional': family.OPTIONAL, 'prefixy': PREFIXY,
         'chain3': family.CHAIN3, 'excl': EXCL, 'abstract': ABSTRACT}
VALS = {'exactpat': {}, 'shortform': {}, 'diamond': {'x': 1, 'right_value': 2}, 'pattern': {'x': 1}, 'optional': {'x': 1}, 'prefixy': {}, 'chain3': {'x': 1},
        'excl': {}, 'abstract': {}}
MOUNTS = ['root', 'train', 'a::b', 'two:train,tr', 'two:n,nn', 'nested']


def cases(tier):
    out = [('sym', form, depth) for form in ('name', 'class', 'qualified') for depth in ((0, 1, 2) if tier == 'quick' else (0, 1, 2, 3))]
    for p in PIPES:
        for m in MOUNTS:
            out.append(('conc', p, m))
    out.append(('bad', 0, 0))
    out.append(('excl2', 0, 0))
    return out


TIER = ['quick']


def make_harness(case, tier):
    TIER[0] = tier or 'quick'
    if case[0] == 'sym':
        return sym(case)
    if case[0] == 'conc':
        return conc(case)
    if case[0] == 'excl2':
        return excl2(case)
    return bad(case)


def sym(case):
    _, form, depth = case
    keylib.setup(full=True, hash_mode='auto')

    def harness(ctx):
        import taskchain.chain as CH
        CH.InputTasks = SymInputTasks
        try:
            A = lambda n: ctx.sym_str(n, exclude=':~', nonempty=True)      # noqa
            nsparts = [A(f'ns{i}') for i in range(depth)]
            ns = None
            for p_ in nsparts:
                ns = p_ if ns is None else ns + '::' + p_
            t1, t2 = A('t1'), A('t2')
            ctx.assume(t1 != t2)
            full = (lambda n: ns + '::' + n) if ns is not None else (lambda n: n)
            # a root-level task with the same name as the input, and one in a sibling namespace
            other_ns = A('other')
            if depth:
                ctx.assume(other_ns != ns) if depth == 1 else None
            if form == 'name':
                decl = t2
            elif form == 'class':
                decl = type('Cls', (), {'slugname': t2})
            else:
                decl = full(t2)
            d1 = Double('t1', ns, [decl])
            d2 = Double('t2', ns, [])
            d3 = Double('root-t2', None, [])
            d4 = Double('other-t2', other_ns, [])
            tasks = instr.SymDict()
            tasks[full(t1)] = d1
            tasks[full(t2)] = d2
            if depth:
                tasks[t2] = d3
            tasks[other_ns + '::' + t2] = d4
            info = {'form': form, 'namespace': ns, 't1': t1, 't2': t2, 'other': other_ns}
            try:
                CH.Chain._process_dependencies(tasks)
                err = None
            except ValueError as e:
                err = 'ValueError'
            got = d1.got
            ok = err is None and got is not None and len(got.items_) == 1 and got.items_[0][1] is d2
            key_ok = z3.BoolVal(True)
            if ok:
                key_ok = to_bool_term(got.items_[0][0] == full(t2))
            ctx.check(z3.And(z3.BoolVal(bool(ok)), key_ok), 'resolved-in-own-namespace',
                      dict(info, error=err, resolved_to=(got.items_[0][1].name if got and got.items_ else None)))
        finally:
            import taskchain.task as TT
            CH.InputTasks = TT.InputTasks
    return harness


def mount(world_fs, spec, vals, how, order):
    """build the config tree for a mounting; returns (config, [(namespace, spec)] for the reference)"""
    from taskchain import Config
    base = world_fs.path('/data')

    def cfg(name, ns, sp, extra=None):
        cl = family.make_pipeline(sp)
        classes = list(cl.values())
        classes = [classes[i] for i in order if i < len(classes)] + [c for i, c in enumerate(classes) if i not in order]
        if any(t.get('abstract') for t in sp):
            # abstract tasks are skipped when tasks are declared by import string (the documented way)
            import ref.family_gen as FG
            for c in classes:
                setattr(FG, c.__name__, c)
            classes = [f'ref.family_gen.{c.__name__}' for c in classes]
        d = dict(vals, tasks=classes)
        d.update(extra or {})
        return Config(base, name=name, namespace=ns, data=d)
    if how == 'root':
        return cfg('c', None, spec), [(None, spec)]
    if how in ('train', 'a::b'):
        return cfg('c', how, spec), [(how, spec)]
    if how.startswith('two:'):
        n1, n2 = how[4:].split(',')
        c1, c2 = cfg('c1', n1, spec), cfg('c2', n2, spec)
        return Config(base, name='main', data={'uses': [c1, c2]}), [(n1, spec), (n2, spec)]
    if how == 'nested':
        inner = cfg('inner', 'in', spec)
        outer = Config(base, name='outer', namespace='out', data={'uses': [inner]})
        return Config(base, name='main', data={'uses': [outer]}), [('out::in', spec)]
    raise ValueError(how)


def conc(case):
    _, pname, how = case
    keylib.setup(full=True, hash_mode='auto')
    spec = PIPES[pname]

    def harness(ctx):
        import networkx as nx
        fs = keylib.fresh_fs()
        n = len(spec)
        perms = list(itertools.permutations(range(n)))
        order = perms[ctx.choice('order', min(len(perms), 6 if TIER[0] == 'quick' else 120))]
        cfg, mounts = mount(fs, spec, VALS[pname], how, list(order))
        info = {'pipeline': pname, 'mounting': how, 'task_order': list(order)}
        try:
            ch = keylib.chain(cfg, shared={})
        except ValueError as e:
            # recorded finding: a task object shared by two identical mountings keeps the first mounting's namespace;
            # its `~pattern` inputs are expanded under the second name and then not found
            known = SHARED if (how.startswith('two:') and any(i['target'].startswith('~') for t in spec for i in t.get('inputs', []))
                               and 'not found' in str(e)) else None
            ctx.check_concrete(False, 'graph=declared', dict(info, construction_raised=str(e)[:200]), known_id=known)
            return
        exp = {}
        for ns, sp in mounts:
            exp.update(evaluator.evaluate(sp, VALS[pname], namespace=ns))
        ctx.check_concrete(set(ch.tasks) == set(exp), 'graph=declared', dict(info, tasks=sorted(ch.tasks), expected=sorted(exp)))
        if set(ch.tasks) != set(exp):
            return
        # one pipeline mounted twice with identical values: the two full names denote ONE shared task object (same
        # computation, see C13) -- nodes are compared as computations: (task, reference key)
        canon = {f: (e['slug'], e['key']) for f, e in exp.items()}
        obj_names = {}
        for f in exp:
            obj_names.setdefault(id(ch.tasks[f]), []).append(f)
        part_ok = all(len({canon[f] for f in fs_}) == 1 for fs_ in obj_names.values()) and \
            len(obj_names) == len(set(canon.values()))
        ctx.check_concrete(part_ok, 'graph=declared', dict(info, what='which names share a task object',
                                                           groups=sorted(map(sorted, obj_names.values()))))
        if not part_ok:
            return
        oc = {o: canon[fs_[0]] for o, fs_ in obj_names.items()}

        def rel(name):
            return name.split('::')[-1]
        for f, e in exp.items():
            t = ch.tasks[f]
            got = {}
            for k, v in t.input_tasks.items():
                got[rel(k)] = oc[id(v)] if hasattr(v, 'fullname') else ('default', v)
            want = {rel(k): (canon[v] if not isinstance(v, tuple) else ('default', v[1])) for k, v in e['inputs'].items()}
            ctx.check_concrete(got == want, 'graph=declared', dict(info, task=f, inputs=repr(got)[:300], expected=repr(want)[:300]))
        edges = {(oc[id(a)], oc[id(b)]) for a, b in ch.graph.edges}
        want_edges = {(canon[v], canon[f]) for f, e in exp.items() for v in e['inputs'].values() if not isinstance(v, tuple)}
        ctx.check_concrete(edges == want_edges and {oc[id(x)] for x in ch.graph.nodes} == set(canon.values()), 'graph=declared',
                           dict(info, edges=sorted(map(repr, edges)), expected=sorted(map(repr, want_edges))))
        for f in exp:
            up = {oc[id(t)] for t in ch.required_tasks(f)}
            down = {oc[id(t)] for t in ch.dependent_tasks(f)}
            eup = {canon[x] for x in evaluator.closure(exp, f, 'up')}
            edown = set()
            for g in exp:
                if canon[g] == canon[f]:
                    edown |= {canon[x] for x in evaluator.closure(exp, g, 'down')}
            ctx.check_concrete(up == eup and down == edown, 'closures',
                               dict(info, task=f, required=sorted(map(repr, up)), dependent=sorted(map(repr, down))))
            ctx.check_concrete({oc[id(t)] for t in ch.required_tasks(ch.tasks[f], include_self=True)} == eup | {canon[f]},
                               'closures', dict(info, task=f, include_self=True))
            for g in exp:
                ctx.check_concrete(ch.is_task_dependent_on(f, g) == (canon[g] in eup or canon[f] == canon[g]),
                                   'closures', dict(info, task=f, on=g))
    return harness


def excl2(case):
    keylib.setup(full=True, hash_mode='auto')

    def harness(ctx):
        from taskchain import Config
        fs = keylib.fresh_fs()
        base = fs.path('/data')
        first_excludes = ctx.flag('first_excludes')
        cl1, cl2 = family.make_pipeline(EXCL), family.make_pipeline(EXCL)
        ex = {'excluded_tasks': [cl1['Report']]}
        c1 = Config(base, name='c1', namespace='lite', data=dict(tasks=list(cl1.values()), **ex))
        c2 = Config(base, name='c2', namespace='full', data=dict(tasks=list(cl1.values())))
        uses = [c1, c2] if first_excludes else [c2, c1]
        ch = keylib.chain(Config(base, name='main', data={'uses': uses}), shared={})
        want = {'lite::load', 'lite::extra', 'full::load', 'full::report', 'full::extra'}
        ctx.check_concrete(set(ch.tasks) == want, 'graph=declared',
                           {'scenario': 'exclusion in one of two mountings', 'excluding_config_first': first_excludes,
                            'tasks': sorted(ch.tasks)})
        # exclusion by import string of a task another config provides
    return harness


def bad(case):
    keylib.setup(full=True, hash_mode='auto')

    def harness(ctx):
        fs = keylib.fresh_fs()
        kind = ctx.choice('kind', 6)
        mode = ctx.flag('parameter_mode')
        ns = [None, 'ns'][ctx.choice('ns', 2)]
        if kind == 0:
            spec = [P('Solo', inputs=[inp('solo', 'name')])]
        elif kind == 1:
            spec = [P('A', inputs=[inp('b', 'name')]), P('B', inputs=[inp('A')])]
        elif kind == 2:
            spec = [P('A', inputs=[inp('c', 'name')]), P('B', inputs=[inp('A')]), P('C', inputs=[inp('B')])]
        elif kind == 3:
            spec = [P('A', inputs=[inp('missing', 'name')])]
        elif kind == 5:
            spec = None
        else:
            spec = [P('A', params=[par('x', default=1)]), P('B', inputs=[inp('A'), inp('gone', 'param')])]
        if spec is None:
            # the required input exists only inside a mounted namespace, not where the declaring task lives
            from taskchain import Config
            inner = family.make_pipeline([P('Deep', params=[par('x', default=1)])])
            outer = family.make_pipeline([P('Top', inputs=[inp('deep', 'name')])])
            base = fs.path('/data')
            ci = Config(base, name='inner', namespace='sub', data={'tasks': list(inner.values())})
            info = {'kind': 'input exists only in a mounted namespace', 'parameter_mode': mode, 'namespace': None}
            try:
                keylib.chain(Config(base, name='outer', data={'tasks': list(outer.values()), 'uses': [ci]}), shared={}, parameter_mode=mode)
                raised = None
            except Exception as e:
                raised = type(e).__name__
            ctx.check_concrete(raised is not None, 'cycle-or-dangling-raises', dict(info, raised=raised))
            return
        cl = family.make_pipeline(spec)
        info = {'kind': ['self-cycle', '2-cycle', '3-cycle', 'dangling by name', 'dangling required input parameter', ''][kind],
                'parameter_mode': mode, 'namespace': ns}
        try:
            keylib.chain(keylib.config(fs, cl.values(), {}, namespace=ns), shared={}, parameter_mode=mode)
            raised = None
        except Exception as e:      # the statement says "an error": the type is not constrained
            raised = type(e).__name__
        ctx.check_concrete(raised is not None, 'cycle-or-dangling-raises', dict(info, raised=raised))
    return harness


def run_case(case, tier):
    ctx = explore.explore(make_harness(case, tier), max_paths=(5000 if tier == 'quick' else 200000), time_budget_s=(400 if tier == 'quick' else 3600), decide_timeout_ms=30000)
    return driver.result_from_ctx(ctx)
