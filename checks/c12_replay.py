"""Replay of a C12 / C02 / C03 counterexample on the plain library and a real temporary directory."""
import copy
import pathlib
import shutil
import sys
import tempfile


def undescribe(v):
    from ref import pobjects as PO
    if isinstance(v, dict):
        if '__items__' in v:
            return {undescribe(k): undescribe(x) for k, x in v['__items__']}
        if '__obj__' in v:
            a = {k: undescribe(x) for k, x in v['attrs'].items()}
            n = v['__obj__']
            if n == 'Custom':
                return PO.Custom(a['a'], a['b'])
            if n == 'Sized':
                return PO.Sized(a['size'], tags=a['_tags'], rate=a['rate'], verbose=a['verbose'], extra=a['extra'])
            if n == 'Marker':
                return PO.Marker()
            if n == 'Loc':
                return PO.Loc(a['_root'])
            raise ValueError(n)
        return {k: undescribe(x) for k, x in v.items()}
    if isinstance(v, list):
        return [undescribe(x) for x in v]
    return v


def build(tmp, spec, vals, ns, gv, name='cfg', parameter_mode=True, context=None):
    from taskchain import Config, Chain
    from ref import family
    classes = family.make_pipeline(spec)
    d = copy.deepcopy(vals)
    d['tasks'] = list(classes.values())
    return Chain(Config(tmp, name=name, namespace=ns, data=d, global_vars=gv, context=context),
                 parameter_mode=parameter_mode)


def main(spec):
    from ref import evaluator, keyscheme as KS, keyvalues
    tmp = pathlib.Path(tempfile.mkdtemp(prefix='c12replay'))
    try:
        if spec.get('mode') == 'name':
            from ref.family import P, par, inp
            pipe = [P('Filed', group='g1:g2', params=[par('x')]), P('Dired', data='dir', inputs=[inp('Filed')]),
                    P('Gen', data='gen', params=[par('x')])]
            ch = build(tmp, pipe, {'x': 1}, spec['ns'], None, name=spec['name'], parameter_mode=False)
            t = ch.tasks[spec['task']]
            name = spec['name']
            ext = {'filed': '.json', 'dired': '', 'gen': '.jsonl'}[spec['task'].split(':')[-1]]
            rel = t.data_path.relative_to(tmp)
            exp_name = name + ext
            stem = pathlib.PurePosixPath(exp_name).stem
            if rel.name != exp_name or t._data_without_value.run_info_path.name != stem + '.run_info.yaml' \
                    or t._data_without_value.log_path.name != stem + '.log':
                print('name mode: config', repr(name), 'task', spec['task'], '-> data path', str(rel),
                      'expected file name', exp_name, '| run info', t._data_without_value.run_info_path.name)
                return 1
            print('layout as documented:', rel)
            return 0
        if spec.get('crossns'):
            from taskchain import Config, Chain
            from ref import family
            from ref.family import P, par, inp
            ds = [P('Dataset', params=[par('size')])]
            mg = [P('Merge', inputs=[inp('train::dataset', 'name'), inp('valid::dataset', 'name')], params=[par('m', default=0)]),
                  P('Report', inputs=[inp('Merge')])]
            s1, s2 = spec['sizes']
            outer = spec['outer']
            dcl = family.make_pipeline(ds)
            mcl = family.make_pipeline(mg)
            ct = Config(tmp, name='tr', namespace='train', data={'tasks': list(dcl.values()), 'size': s1})
            cv = Config(tmp, name='va', namespace='valid', data={'tasks': list(dcl.values()), 'size': s2})
            ch = Chain(Config(tmp, name='main', namespace=outer, data={'tasks': list(mcl.values()), 'uses': [ct, cv]}))
            pre = f'{outer}::' if outer else ''
            kd1 = KS.digest32(KS.key_text([{'name': 'size', 'value': s1}], {}))
            kd2 = KS.digest32(KS.key_text([{'name': 'size', 'value': s2}], {}))
            km = KS.digest32(KS.key_text([{'name': 'm', 'value': 0}], {'train::dataset': kd1, 'valid::dataset': kd2}))
            kr = KS.digest32(KS.key_text([], {'merge': km}))
            exp = {pre + 'train::dataset': kd1, pre + 'valid::dataset': kd2, pre + 'merge': km, pre + 'report': kr}
            if 'got' in spec:
                if set(ch.tasks) != set(exp):
                    print('tasks', sorted(ch.tasks), 'expected', sorted(exp))
                    return 1
                return 0
            got = ch.tasks[spec['task']].name_for_persistence
            if got != exp[spec['task']]:
                print('cross-namespace inputs: task', spec['task'], 'sizes', s1, s2, 'key', got, 'frozen scheme', exp[spec['task']])
                return 1
            return 0
        if spec.get('pool'):
            from ref.family import P, par, inp
            pipe = [P('Holder', params=[par('v'), par('w', default='d', dpdv=True)]),
                    P('Next', inputs=[inp('Holder')], params=[par('u', default=None)])]
            vals = eval(spec['vals'], {'inf': float('inf'), 'nan': float('nan')})
            ch = build(tmp, pipe, vals, None, None)
            ev = evaluator.evaluate(pipe, vals)
            info = ev[spec['task']]
            got = ch.tasks[spec['task']].name_for_persistence
            if got != info['key']:
                print('values', spec['vals'], 'task', spec['task'], 'key', got, 'frozen scheme', info['key'],
                      'text', repr(info['key_text']))
                return 1
            print('key as in the frozen scheme', got)
            return 0
        pipe_name = spec['pipe']
        pipe = keyvalues.PIPES[pipe_name]
        vals = undescribe(spec['vals'])
        gv = undescribe(spec.get('gv'))
        ch = build(tmp, pipe, vals, spec['ns'], gv)
        refv = keyvalues.ref_values(pipe_name, vals, repr)
        ev = evaluator.evaluate(pipe, refv, namespace=spec['ns'])
        bad = 0
        if set(ch.tasks) != set(ev):
            print('tasks', sorted(ch.tasks), 'expected', sorted(ev))
            return 1
        for f, info in ev.items():
            t = ch.tasks[f]
            got = t.name_for_persistence
            d, fname = KS.layout((), info['group'], info['name'], info['key'], info['data'])
            if got != info['key']:
                print('task', f, 'key', got, '!= frozen scheme', info['key'], '\n  text', repr(info['key_text']),
                      '\n  values', {k: v for k, v in vals.items()})
                bad = 1
            elif info['data'] != 'mem':
                rel = t.data_path.relative_to(tmp)
                dwv = t._data_without_value
                if rel.parts != d + (fname,) or dwv.run_info_path.name != info['key'] + '.run_info.yaml' \
                        or dwv.log_path.name != info['key'] + '.log' or dwv.log_path.parent != t.data_path.parent:
                    print('task', f, 'layout', rel, 'expected', d + (fname,), 'run info', dwv.run_info_path.name)
                    bad = 1
        if not bad:
            print('keys and layout as in the frozen scheme')
        return bad
    finally:
        shutil.rmtree(tmp, ignore_errors=True)
