"""C18 — run records describe the run that produced the stored result.

Real code executed: Task.data, _init_run_info, save_to_run_info, _finish_run_info, Data.get_log_handler /
save_run_info / load_run_info / log over MFS file handles with independent offsets; the logging module itself is real.
Symbolic (choice variables): a history of h steps from: request task j, request with task j's run failing after it
logged, force j and request, build another chain (same process: logger objects persist), restart.
Oracle: after every step, for every task with a stored result and through every live chain: run_info names the task,
the representation of every parameter, the key of every input, the config, and exactly the records of the run that
produced the stored result; the log holds exactly that run's messages; no file handler stays on a task logger.
"""
from sx import explore, driver
from checks import hist
from ref import family, keyscheme as KS
from ref.family import P, par, inp

PROPERTY = 'C18'
FUNCTIONS = ['taskchain.task.Task', 'taskchain.data.Data']
EXPLANATION = ('Exhaustive branch-driven symbolic exploration of the real run-record plumbing over the model file '
               'system (file handles with their own offsets, so a stale handler is observable exactly as on disk): '
               'the history is a sequence of bounded symbolic integers; on every path run info, log and logger '
               'handlers are compared with the reference after every step, through every live chain object.')
ASSUMPTIONS = ['file system = MFS model with per-handle offsets; logging module real', 'one process: logger objects '
               'persist across chains (restart drops them)']
OUTSIDE = ['timestamps and durations (started / ended / time are only required to be present)', 'histories longer than h']
REACH = ['run-info', 'log', 'handlers']

PIPE = [P('Summary', group='report', params=[par('depth', default=2), par('verbose', default=False, ignore=True)]),
        P('Report', inputs=[inp('report:summary', 'name')], params=[par('title', default='t')], access='args'),
        P('Final', inputs=[inp('Report'), inp('report:summary', 'name')], data='dir')]
NAMES = ['report:summary', 'report', 'final']


def bounds(tier):
    return {'pipeline': 'report:summary -> report -> final(dir)', 'h': 3 if tier == 'quick' else 4,
            'operations': ['request j', 'request j with a failing run of task i', 'force j + request', 'new chain',
                           'restart']}


def cases(tier):
    h = 3 if tier == 'quick' else 4
    return [('hist', h, first) for first in range(len(ops()))]


def ops():
    return [('req', j) for j in range(3)] + [('failreq', j) for j in range(3)] + [('forcereq', j) for j in range(3)] + \
        [('quietforce', 1), ('new', 0), ('restart', 0)]


def expected_records(ref, k, name, nth):
    info = ref.ev(k)[name]
    spec = info['spec']
    ptext = KS.param_text(info['params'])
    in_keys = {n: ref.ev(k)[t]['key'] for n, t in info['inputs'].items() if not isinstance(t, tuple)}
    ri = {'task': {'name': info['slug'], 'class': spec['name'], 'module': 'ref.family_gen'},
          'parameters': {p['name']: KS.vrepr(p['value']) for p in info['params']},
          'config': {'name': 'cfg0', 'namespace': None, 'context': None},
          'input_tasks': in_keys, 'log': [{'nth_run_of_task': nth}, {'shape': (2, nth), 'tags': {'a', 'b'}}]}
    log = [f'{name} - run started with params: {ptext}', f'step {nth} of {name}', f'{name} - run ended']
    return ri, log


def make_harness(case, tier):
    _, h, first = case
    hist.setup(full=False)
    OPS = ops()

    def harness(ctx):
        world = hist.World(PIPE, [{}])
        ref = hist.Ref(PIPE, [{}])
        cur = world.build(0)
        ref.build(0)
        live = [cur]
        produced = {}          # location -> nth run of the task that produced the stored result
        counts = {}            # task name -> runs so far (the run methods number their runs the same way)
        failed_last = set()    # locations whose latest run attempt failed
        quiet_locs = set()     # locations whose latest run logged nothing (their log must be empty)
        trace = []
        for step in range(h):
            op, arg = OPS[first] if step == 0 else OPS[ctx.choice(f'op{step}', len(OPS))]
            trace.append((op, arg))
            info = {'trace': list(trace)}
            if op == 'new':
                cur = world.build(0)
                ref.build(0)
                live.append(cur)
            elif op == 'restart':
                world.drop_chains()
                ref.drop_chains()
                cur = world.build(0)
                ref.build(0)
                live = [cur]
            else:
                name = NAMES[arg]
                fail = None
                quiet = op == 'quietforce'
                if op in ('forcereq', 'quietforce'):
                    world.chain(cur).force(name)
                    ref.force(cur, [name])
                if quiet:
                    # the forced run logs nothing at all (the task logger is raised to WARNING for its duration)
                    import logging
                    for nm in NAMES:
                        world.task(cur, nm).logger.setLevel(logging.WARNING)
                if op == 'failreq':
                    # the task that fails is the requested one's first input (or itself for the source)
                    fail = {'report:summary': 'report:summary', 'report': 'report:summary', 'final': 'report'}[name]
                    if ctx.flag(f'failself{step}'):
                        fail = name

                    def boom(task, slug=fail):
                        family.FAIL.pop(slug, None)
                        raise hist.RunFailed(slug)
                    family.FAIL[fail] = boom
                mark = world.mark()
                got = world.request(cur, name)
                family.FAIL.pop(fail, None)
                if quiet:
                    import logging
                    for nm in NAMES:
                        world.task(cur, nm).logger.setLevel(logging.DEBUG)
                exp_runs, outcome, _ = ref.request(cur, name, fail=fail)
                if quiet:
                    for r in exp_runs:
                        quiet_locs.add(ref.loc(cur, r))
                else:
                    for r in exp_runs:
                        quiet_locs.discard(ref.loc(cur, r))
                for r in exp_runs:
                    counts[r] = counts.get(r, 0) + 1
                    if fail is not None and ref.ev(cur)[r]['slug'] == fail and outcome == 'exc' and r == exp_runs[-1]:
                        # the latest run attempt of this task failed: the statement constrains the records "after a
                        # task has run successfully"; they are checked again after its next successful run
                        failed_last.add(ref.loc(cur, r))
                    else:
                        produced[ref.loc(cur, r)] = counts[r]
                        failed_last.discard(ref.loc(cur, r))
                if outcome == 'exc':
                    for r in ref.last_attempted:
                        failed_last.add(ref.loc(cur, r))
                ran = [r[0] for r in world.runs_since(mark)]
                ctx.check_concrete(sorted(ran) == sorted(exp_runs) and got[0] == outcome, 'runs',
                                   dict(info, ran=ran, expected=exp_runs, outcome=got[0]))
            # ---- records of every stored result, seen through every live chain object
            for k in live:
                for n in NAMES:
                    loc = ref.loc(k, n)
                    t = world.task(k, n)
                    if loc not in produced or not ref.has_data(k, n) or loc in failed_last:
                        continue
                    ri_exp, log_exp = expected_records(ref, k, n, produced[loc])
                    if loc in quiet_locs:
                        log_exp = []
                    try:
                        ri = t.run_info
                    except Exception as e:        # the record of a stored result must be readable
                        ctx.check_concrete(False, 'run-info', dict(info, task=n, chain=k, error=f'{type(e).__name__}: {e}'[:200]))
                        continue
                    got_ri = None if ri is None else {kk: ri.get(kk) for kk in ri_exp}
                    if got_ri and isinstance(got_ri.get('config'), dict) and got_ri['config'].get('name') == f'cfg0/{n}':
                        # parameter mode records the per-task config "<config name>/<task>": it names the config
                        got_ri['config'] = dict(got_ri['config'], name='cfg0')
                    ok = got_ri == ri_exp and ri is not None and all(x in ri for x in ('started', 'ended', 'time', 'user'))
                    ctx.check_concrete(ok, 'run-info', dict(info, task=n, chain=k, got=repr(got_ri)[:500],
                                                            expected=repr(ri_exp)[:500]))
                    lg = t.log
                    ctx.check_concrete(lg == log_exp, 'log', dict(info, task=n, chain=k, got=repr(lg)[:500],
                                                                 expected=repr(log_exp)[:300]))
                for n in NAMES:
                    hs = [type(hd).__name__ for hd in world.task(k, n).logger.handlers]
                    ctx.check_concrete(not any('FileHandler' in x for x in hs), 'handlers',
                                       dict(info, task=n, handlers=hs))
    return harness


def run_case(case, tier):
    ctx = explore.explore(make_harness(case, tier), max_paths=(40000 if tier == 'quick' else 1600000), time_budget_s=(500 if tier == 'quick' else 3600))
    return driver.result_from_ctx(ctx)
