"""C01 — a chain never returns a stale or foreign result.

H1 (histories): real chains for two configurations of one pipeline over ONE model data directory; a symbolic history of
    h operations (build chain for config A/B, request task j, force+request, request with a failing run, restart).
    After every request the returned value must be the value of that task computed from the requesting chain's OWN
    configuration (reference evaluator), whatever was stored, held in memory or computed for the other configuration.
H2 (values): the two configurations' parameter values are symbolic strings / integers (unbounded); chain 1 computes
    everything (results stored under symbolic file names H(text)[:32].json, payloads kept as terms), chain 2 then
    requests every task: the returned term must equal the reference term of chain 2's own parameters; the solver is
    asked for values making them differ (sat exactly when two different computations share a location).
H3 (mountings): one pipeline file mounted under two namespaces with per-namespace context values (symbolic).
"""
import z3

from sx import explore, driver, instr, replay as _rp
from sx.sym import Sym, to_bool_term, has_sym
from checks import hist, keylib
from checks.c12 import describe
from ref import family, evaluator
from ref.family import P, par, inp

PROPERTY = 'C01'
FUNCTIONS = ['taskchain.chain', 'taskchain.task', 'taskchain.config', 'taskchain.parameter', 'taskchain.data']
EXPLANATION = ('H1: exhaustive branch-driven symbolic exploration of real chains over the model file system (history '
               'operations as bounded symbolic integers), the returned value of every request compared with the '
               'reference value of the requesting chain\'s own configuration. H2/H3: symbolic execution with '
               'parameter / context values as unbounded SMT strings and integers flowing through chain construction, '
               'run, storage under symbolic file names and loading; per request the query "returned term != own '
               'reference term" is decided by cvc5/z3.')
ASSUMPTIONS = ['file system = MFS model; sha256[:32] = uninterpreted injective H in H2/H3',
               'run methods are deterministic injective tagging functions of name, parameters and inputs',
               'in H2 the serialisers are the uninterpreted inverse pair of DESIGN 4.2 (payloads are terms)']
OUTSIDE = ['pipelines other than the family members used', 'histories longer than h', 'more than two configurations '
           'on one store', 'FigureData / H5Data']
REACH = ['own-value', 'own-value-symbolic', 'store-invariant']
QUOTE = 'C01-quote-collision'

PIPE = [P('Src', params=[par('x')]),
        P('Mid', params=[par('y', default=5)], inputs=[inp('Src')], data='dir'),
        P('Out', inputs=[inp('Mid'), inp('src', 'name')], data='json'),
        P('Note', params=[par('x')], data='mem'),
        P('Feed', inputs=[inp('Src')], data='lazy'),
        P('Arr', inputs=[inp('Src')], data='listnpy12'),
        P('Stats', group='features', params=[par('y', default=5)]),
        P('Stats2', meta_name='stats', inputs=[inp('Src')]),
        P('Pos', inputs=[inp('features:stats', 'name'), inp('stats', 'name'), inp('Mid')], access='index')]
PAIRS = [({'x': 0}, {'x': False}), ({'x': 1}, {'x': 1.0}), ({'x': ''}, {'x': None}),
         ({'x': ['a', 'b']}, {'x': ["a', 'b"]}), ({'x': 0, 'y': 5}, {'x': 0, 'y': 6}), ({'x': 'k'}, {'x': 'k'})]
NAMES = ['src', 'mid', 'out', 'note', 'feed', 'pos']


def bounds(tier):
    return {'H1': {'pipeline': 'Src->Mid(dir)->Out, Note(mem)', 'config_pairs': len(PAIRS), 'h': 3 if tier == 'quick' else 4},
            'H2': {'pipelines': ['chain3', 'diamond'], 'values': 'symbolic strings/ints (unbounded)'},
            'H3': {'mountings': 'one file under n1 and n2, per-namespace context values symbolic'}}


def cases(tier):
    out = []
    h = 3 if tier == 'quick' else 4
    for pi in range(len(PAIRS)):
        if tier == 'quick' and pi in (1, 4, 5):
            continue
        for first in ((0, 2) if tier == 'quick' else range(3)):         # the starting state is partitioned over workers
            out.append(('H1', pi, h, first, tier == 'quick'))
    for pipe in ('chain3', 'diamond'):
        for ns in (None, 'ns'):
            out.append(('H2', pipe, ns, 0))
    out.append(('H2q', 'chain3', None, 0))
    out.append(('H3', 0, 0, 0))
    out.append(('H4', 0, 0, 0))
    return out


def value_eq(a, b):
    """z3 Bool: structural equality of two tagged values that may hold symbolic leaves."""
    if isinstance(a, Sym) or isinstance(b, Sym):
        r = (a == b) if isinstance(a, Sym) else (b == a)
        return to_bool_term(r)
    if isinstance(a, dict) and isinstance(b, dict):
        if set(a) != set(b):
            return z3.BoolVal(False)
        return z3.And([value_eq(a[k], b[k]) for k in a] + [z3.BoolVal(True)])
    if isinstance(a, (list, tuple)) and isinstance(b, (list, tuple)):
        if len(a) != len(b):
            return z3.BoolVal(False)
        return z3.And([value_eq(x, y) for x, y in zip(a, b)] + [z3.BoolVal(True)])
    return z3.BoolVal(type(a) is type(b) and a == b)


def make_harness(case, tier):
    kind = case[0]
    if kind == 'H1':
        return h1(case)
    if kind in ('H2', 'H2q'):
        return h2(case)
    if kind == 'H4':
        return h4(case)
    return h3(case)


def h1(case):
    _, pi, h, first, slim = case
    hist.setup(full=False)
    cfgs = list(PAIRS[pi])
    if slim:
        OPS = [('build', 0), ('build', 1), ('req', 1), ('req', 2), ('req', 4), ('req', 5), ('forcereq', 1), ('failreq', 2),
               ('failitem', 4), ('restart', 0)]
    else:
        OPS = [('build', 0), ('build', 1)] + [('req', j) for j in range(6)] + [('forcereq', j) for j in range(3)] + \
              [('failreq', j) for j in range(3)] + [('failitem', 4), ('restart', 0)]

    def harness(ctx):
        world = hist.World(PIPE, cfgs)
        ref = hist.Ref(PIPE, cfgs)
        cur = world.build(first % 2)
        ref.build(first % 2)
        trace = [('build', first % 2)]
        if first == 2:
            # start from a store in which configuration B already computed everything
            for n in NAMES + ['arr', 'pos']:
                world.request(cur, n)
                ref.request(cur, n)
            trace.append(('compute-all', 1))
        for step in range(h):
            op, arg = OPS[ctx.choice(f'op{step}', len(OPS))]
            trace.append((op, arg))
            info = {'configs': cfgs, 'trace': list(trace)}
            if op == 'build':
                cur = world.build(arg)
                ref.build(arg)
            elif op == 'restart':
                ci = world.chains[cur][0]
                world.drop_chains()
                ref.drop_chains()
                cur = world.build(ci)
                ref.build(ci)
            else:
                name = NAMES[arg]
                ci = world.chains[cur][0]
                own = ref.ev(cur)[name]['value']
                if op == 'forcereq':
                    world.chain(cur).force(name)
                    ref.force(cur, [name])
                fail = None
                if op == 'failitem':
                    # the generator body of the lazily generated result raises after its first item
                    def boom_item(task, kk):
                        if kk == 1:
                            family.FAIL.pop('feed/item', None)
                            raise hist.RunFailed('feed/item')
                    if ref.obj(cur, name) not in ref.mem and not ref.has_data(cur, name):
                        family.FAIL['feed/item'] = boom_item
                        try:
                            world.request(cur, name)
                        except hist.RunFailed:
                            pass
                        family.FAIL.pop('feed/item', None)
                        # the reference: the computation started (inputs were computed and stored) and failed
                        for i_ in ref.inputs(cur, name):
                            ref.request(cur, i_)
                    continue
                if op == 'failreq':
                    fail = ref.ev(cur)[name]['slug']

                    def boom(task, slug=fail):
                        family.FAIL.pop(slug, None)
                        raise hist.RunFailed(slug)
                    family.FAIL[fail] = boom
                got = world.request(cur, name)
                family.FAIL.pop(fail, None)
                _, exp_outcome, _ = ref.request(cur, name, fail=fail)
                if got[0] != 'ok' and exp_outcome == 'ok' or got[0] == 'error':
                    ctx.check_concrete(False, 'own-value', dict(info, config=ci, task=name, got=repr(got)[:300], own=repr(own)[:300]))
                if got[0] == 'ok':
                    val = family.norm_input(got[1])
                    known = QUOTE if any("'" in str(v) for c in cfgs for v in (c['x'] if isinstance(c['x'], list) else [])) else None
                    ctx.check_concrete(val == own, 'own-value',
                                       dict(info, config=ci, task=name, got=repr(val)[:300], own=repr(own)[:300]),
                                       known_id=known)
        # store invariant: whatever is stored for a location is the value of the computation the location names
        for ci in (0, 1):
            world.drop_chains()
            k = world.build(ci)
            kr = hist.Ref(PIPE, cfgs)
            kr.build(ci)
            for n in NAMES[:3] + ['feed', 'arr', 'pos']:
                if world.task(k, n).has_data:
                    mark = world.mark()
                    got = world.request(k, n)
                    val = family.norm_input(got[1]) if got[0] == 'ok' else None
                    own = kr.ev(0)[n]['value']
                    known = QUOTE if any("'" in str(v) for c in cfgs for v in (c['x'] if isinstance(c['x'], list) else [])) else None
                    ctx.check_concrete(val == own, 'store-invariant',
                                       dict({'configs': cfgs, 'trace': list(trace)}, config=ci, task=n,
                                            got=repr(val)[:300], own=repr(own)[:300]), known_id=known)
    return harness


SYM_PIPES = {'chain3': family.CHAIN3, 'diamond': family.DIAMOND}


def h2(case):
    kind, pipe, ns, _ = case
    keylib.setup(full=True, hash_mode='uf')
    spec = SYM_PIPES[pipe]
    quote = kind == 'H2q'

    def harness(ctx):
        from sx import env as _env
        fs = keylib.fresh_fs()
        ex = '' if quote else "'"

        def vals(tag):
            if pipe == 'chain3':
                return {'x': [ctx.sym_str(f'x{tag}a', exclude=ex), ctx.sym_str(f'x{tag}b', exclude=ex)] if quote
                        else ctx.sym_str(f'x{tag}', exclude=ex), 'y': ctx.sym_int(f'y{tag}')}
            return {'x': ctx.sym_str(f'x{tag}', exclude=ex), 'right_value': ctx.sym_int(f'r{tag}'),
                    'l': ctx.sym_str(f'l{tag}', exclude=ex), 'left_level': ctx.sym_int(f'lv{tag}')}
        v1, v2 = vals(1), vals(2)
        if quote:
            v2 = dict(v2, x=[ctx.sym_str('x2', exclude='')])
        cl = family.make_pipeline(spec)
        shared = None if keylib.in_replay() else instr.SymDict()
        ev2 = evaluator.evaluate(spec, v2, namespace=ns)
        try:
            c1 = keylib.chain(keylib.config(fs, cl.values(), v1, name='one', namespace=ns), shared=shared)
            for n in c1.tasks:
                c1.tasks[n].value
            shared2 = None if keylib.in_replay() else instr.SymDict()
            c2 = keylib.chain(keylib.config(fs, cl.values(), v2, name='two', namespace=ns), shared=shared2)
        except Exception as e:        # a valid configuration: building and computing it must not fail
            ctx.check_concrete(False, 'own-value-symbolic', {'pipe': pipe, 'ns': ns, 'v1': describe(v1), 'v2': describe(v2),
                                                             'error': f'{type(e).__name__}: {e}'[:200]})
            return
        known = None
        if quote:
            strs = [v1['x'][0], v1['x'][1], v2['x'][0]]
            known = {QUOTE: z3.Or([z3.Contains(s.t, z3.StringVal("'")) for s in strs if isinstance(s, Sym)] + [z3.BoolVal(any("'" in s for s in strs if not isinstance(s, Sym)))])}
        for n, info in ev2.items():
            got = c2.tasks[n].value
            ctx.check(value_eq(got, info['value']), 'own-value-symbolic',
                      {'pipe': pipe, 'ns': ns, 'task': n, 'v1': describe(v1), 'v2': describe(v2)}, known=known)
    return harness


def h3(case):
    keylib.setup(full=True, hash_mode='uf')

    def harness(ctx):
        import json
        import os
        import tempfile
        from taskchain import Config
        fs = keylib.fresh_fs()
        spec = [P('Q', params=[par('v', default=0), par('w', default='w0')]), P('R', inputs=[inp('Q')])]
        cl = family.make_pipeline(spec, module='ref.family_gen')
        import ref.family_gen as FG
        FG.Q, FG.R = cl['Q'], cl['R']
        # config FILES live on the real disk (config loading is not under test); results go to the model directory
        d = tempfile.mkdtemp(dir=_rp.MODE['tmp']) if keylib.in_replay() else tempfile.mkdtemp(prefix='c01cfg')
        try:
            with open(os.path.join(d, 'p.json'), 'w') as f:
                json.dump({'tasks': ['ref.family_gen.Q', 'ref.family_gen.R']}, f)
            with open(os.path.join(d, 'm.json'), 'w') as f:
                json.dump({'uses': [f'{d}/p.json as n1', f'{d}/p.json as n2']}, f)
            s1, s2, g = ctx.sym_int('s1'), ctx.sym_int('s2'), ctx.sym_str('g', exclude="'")
            context = {'w': g, 'for_namespaces': {'n1': {'v': s1}, 'n2': {'v': s2}}}
            cfg = Config(fs.path('/data'), os.path.join(d, 'm.json'), context=context)
            ch = keylib.chain(cfg)
            exp = {}
            for nsn, sv in (('n1', s1), ('n2', s2)):
                ev = evaluator.evaluate(spec, {'v': sv, 'w': g}, namespace=nsn)
                exp.update(ev)
            order = [['n1::q', 'n1::r', 'n2::q', 'n2::r'], ['n2::r', 'n1::r', 'n2::q', 'n1::q']][ctx.choice('order', 2)]
            for n in order:
                got = ch.tasks[n].value
                ctx.check(value_eq(got, exp[n]['value']), 'own-value-symbolic',
                          {'mounting': 'p.json as n1, n2', 'task': n, 'v': [s1, s2, g], 'order': order})
            # a second chain over the same store
            ch2 = keylib.chain(Config(fs.path('/data'), os.path.join(d, 'm.json'), context=context))
            for n in order:
                got = ch2.tasks[n].value
                ctx.check(value_eq(got, exp[n]['value']), 'own-value-symbolic',
                          {'mounting': 'p.json as n1, n2 (second chain)', 'task': n, 'v': [s1, s2, g], 'order': order})
        finally:
            import shutil
            if not keylib.in_replay():
                shutil.rmtree(d, ignore_errors=True)
    return harness


def h4(case):
    """One task fed by the same task class through two sibling namespaces (train / valid): two configurations of the
    whole tree with symbolic sizes share one store."""
    keylib.setup(full=True, hash_mode='uf')

    def harness(ctx):
        from taskchain import Config
        fs = keylib.fresh_fs()
        ds = [P('Dataset', params=[par('size')])]
        mg = [P('Merge', inputs=[inp('train::dataset', 'name'), inp('valid::dataset', 'name')]),
              P('Report', inputs=[inp('Merge')])]
        sizes = [ctx.sym_int(f's{i}') for i in range(4)]
        base = fs.path('/data')
        chains, exps = [], []
        for n, (a, b) in enumerate(((sizes[0], sizes[1]), (sizes[2], sizes[3]))):
            dcl = family.make_pipeline(ds)
            mcl = family.make_pipeline(mg)
            ct = Config(base, name=f'tr{n}', namespace='train', data={'tasks': list(dcl.values()), 'size': a})
            cv = Config(base, name=f'va{n}', namespace='valid', data={'tasks': list(dcl.values()), 'size': b})
            main = Config(base, name=f'main{n}', data={'tasks': list(mcl.values()), 'uses': [ct, cv]})
            chains.append(keylib.chain(main))
            dt = family.tag('dataset', {'size': a}, {})
            dv = family.tag('dataset', {'size': b}, {})
            mv = family.tag('merge', {}, {'dataset': dv})       # both inputs arrive under the key `dataset`...
            exps.append({'train::dataset': dt, 'valid::dataset': dv})
        # ...so the merged value only shows the LAST input; compare through the datasets and the merge's inputs
        for n in ('train::dataset', 'valid::dataset', 'merge', 'report'):
            chains[0].tasks[n].value
        for n in ('train::dataset', 'valid::dataset'):
            got = chains[1].tasks[n].value
            ctx.check(value_eq(got, exps[1][n]), 'own-value-symbolic', {'wiring': True, 'task': n, 'sizes': sizes})
        m0, m1 = chains[0].tasks['merge'], chains[1].tasks['merge']
        r0, r1 = chains[0].tasks['report'], chains[1].tasks['report']
        same_inputs = z3.And(sizes[0].t == sizes[2].t, sizes[1].t == sizes[3].t) if isinstance(sizes[0], Sym) else \
            z3.BoolVal(sizes[0] == sizes[2] and sizes[1] == sizes[3])
        # the merge / report of configuration 2 may only be served from configuration 1's results when both inputs agree
        for t0, t1, nm in ((m0, m1, 'merge'), (r0, r1, 'report')):
            before = len(family.RUNLOG)
            t1.value
            reran = any(r[0] == nm for r in family.RUNLOG[before:])
            ctx.check(z3.Or(z3.BoolVal(reran), same_inputs), 'own-value-symbolic',
                      {'wiring': True, 'task': nm, 'sizes': sizes, 'served_from_store': not reran})
    return harness


def run_case(case, tier):
    ctx = explore.explore(make_harness(case, tier), max_paths=(40000 if tier == 'quick' else 1600000), time_budget_s=(500 if tier == 'quick' else 3600),
                          decide_timeout_ms=30000 if tier == 'quick' else 90000)
    return driver.result_from_ctx(ctx)


def match_finding(spec, v, listed):
    return None
