"""C07 — forcing recomputes exactly what was asked.

Real code executed: Chain.force / Task.force / Task.data / dependent_tasks over the model file system.
Symbolic (choice variables): the store pre-state (any subset of results present), the forced set (any non-empty subset
of tasks, passed as name / task object / list), the flags recompute and delete_data, whether a forced run fails once,
a second force, and the order of up to h later requests (current chain or a fresh chain).
Oracle: reference closure semantics (checks/hist.py).
"""
from sx import explore, driver
from checks import hist
from checks.c04 import norm
from ref import family

PROPERTY = 'C07'
FUNCTIONS = ['taskchain.chain.Chain.force', 'taskchain.task.Task.force', 'taskchain.task.Task.data',
             'taskchain.chain.Chain.dependent_tasks', 'taskchain.data']
EXPLANATION = ('Exhaustive branch-driven symbolic exploration of the real Chain.force / Task.force / Task.data over '
               'the model file system: pre-state, forced set, flags, failure point and later request order are '
               'bounded symbolic integers; on every path forced flags, deleted files, run counts and returned values '
               'are compared with the reference closure.')
ASSUMPTIONS = ['file system = MFS model; serialisers real on concrete payloads',
               'run methods are deterministic tagging functions; a failing run raises an ordinary Exception once']
OUTSIDE = ['pipelines with more than 4 tasks', 'more than h later requests']
REACH = ['forced-flags', 'deleted-exactly', 'runs-after-force', 'recompute-once', 'value']

KINDS = [('json', 'json', 'json', 'json'), ('json', 'dir', 'mem', 'gen'), ('dir', 'json', 'json', 'mem')]


def bounds(tier):
    return {'tasks': '2 (all DAGs, 2 data-kind sets), 3 (5 of 8 DAGs), 4 (1 DAG)' if tier == 'quick' else
                     '2 (all DAGs, 3 data-kind sets), 3 (all DAGs), 4 (8 of 64 DAGs)',
            'later_requests': 1 if tier == 'quick' else 2, 'forced_set': 'every non-empty subset',
            'flags': ['recompute', 'delete_data'], 'failing_forced_run': True, 'second_force': True}


def cases(tier):
    """(tasks, dag index, data kinds index, later requests h, second force?, all pre-states?)"""
    out = []
    q = tier == 'quick'
    for di in range(len(family.dag_specs(2))):
        for ki in range(len(KINDS)):
            if q and ki == 2:
                continue
            for pre in range(4):
                out.append((2, di, ki, 1 if q else 2, True, pre))      # thorough: two later requests
    for di in range(len(family.dag_specs(3))):
        if q and di not in (1, 3, 5, 6, 7):
            continue
        for pre in range(8):          # the pre-state is partitioned over worker processes
            out.append((3, di, di % len(KINDS), 1 if q else 2, False, pre))
    for di in range(len(family.dag_specs(4))):
        if (q and di != 43) or (not q and di % 8 != 3):
            continue
        for pre in ((0, 15) if q else range(16)):
            for fpart in range(3):
                out.append((4, di, di % len(KINDS), 1, False, pre, fpart))
    out.append(('namemode-delete', 0, 0, 0, False, True))
    return out


def namemode_delete(case):
    """results are stored under config names (parameter_mode=False): deleting the data of a forced task of config
    `model` must not touch the results of config `model.v2` (or `model_v2`, `mode`) in the same directory"""
    hist.setup(full=False)

    def harness(ctx):
        from taskchain import Config, Chain
        edges, spec = family.dag_specs(2)[1]
        kinds = KINDS[ctx.choice('kinds', len(KINDS))]
        spec = [dict(t, data=kinds[j]) for j, t in enumerate(spec)]
        world = hist.World(spec, [{}])
        fs = world.fs
        names = ['model', 'model.v2', 'model_v2', 'mode']
        chains = {}
        for nm in names:
            d = {'tasks': list(world.classes.values())}
            chains[nm] = Chain(Config(fs.path('/data'), name=nm, data=d), parameter_mode=False)
            for t in ('t0', 't1'):
                chains[nm].tasks[t].value
        victim = names[ctx.choice('forced_config', len(names))]
        which = ['t0', 't1'][ctx.choice('task', 2)]
        chains[victim].force(which, delete_data=True)
        info = {'mode': 'name', 'forced_config': victim, 'task': which, 'kinds': kinds[:2]}
        for nm in names:
            fresh = Chain(Config(fs.path('/data'), name=nm, data={'tasks': list(world.classes.values())}), parameter_mode=False)
            for t in ('t0', 't1'):
                persists = kinds[int(t[1])] != 'mem'
                gone = nm == victim and (t == which or (which == 't0' and t == 't1'))
                exp = persists and not gone
                ctx.check_concrete(fresh.tasks[t].has_data == exp, 'deleted-exactly',
                                   dict(info, config=nm, looked_at=t, has_data=fresh.tasks[t].has_data, expected=exp))
    return harness


def make_harness(case, tier):
    if case[0] == 'namemode-delete':
        return namemode_delete(case)
    n, di, ki, h, second, allpre = case[:6]
    fpart = case[6] if len(case) > 6 else None
    hist.setup(full=False)
    edges, spec = family.dag_specs(n)[di]
    kinds = KINDS[ki]
    spec = [dict(t, data=kinds[j]) for j, t in enumerate(spec)]
    names = [f't{j}' for j in range(n)]

    def harness(ctx):
        world = hist.World(spec, [{}])
        ref = hist.Ref(spec, [{}])
        if allpre is True:
            mask = ctx.choice('pre', 1 << n)
        elif allpre is False:
            mask = [0, (1 << n) - 1][ctx.choice('pre', 2)]
        else:
            mask = allpre
        subset = {names[j] for j in range(n) if mask >> j & 1}
        hist.prestate(world, ref, 0, subset)
        k = world.build(0)
        ref.build(0)
        # optionally the last task's value (and what it needs) is already in memory
        warm = ctx.choice('warm', 2) if n <= 3 else 0
        if warm:
            world.request(k, names[-1])
            ref.request(k, names[-1])
        trace = [('pre', sorted(subset)), ('warm', names[-1] if warm else None)]
        rnd = 0
        while rnd < 2:
            if fpart is not None and rnd == 0:
                fmask = 1 + fpart * 5 + ctx.choice(f'forced{rnd}', 5)
            else:
                fmask = 1 + ctx.choice(f'forced{rnd}', (1 << n) - 1)
            forced = [names[j] for j in range(n) if fmask >> j & 1]
            form = (fmask + mask + rnd) % 3     # the argument form rotates with the other choices (not a full product)
            recompute = ctx.flag(f'recompute{rnd}') if rnd == 0 else False
            delete = ctx.flag(f'delete{rnd}') if rnd == 0 else False
            fail = None
            if rnd == 0 and not recompute and ctx.flag(f'fail{rnd}'):
                fail = names[ctx.choice(f'failwho{rnd}', n)]
            trace.append(('force', forced, {'form': form, 'recompute': recompute, 'delete_data': delete, 'fail': fail}))
            info = {'dag': edges, 'kinds': kinds[:n], 'trace': list(trace)}
            arg = forced if form == 0 else ([world.task(k, f) for f in forced] if form == 1 else
                                            (forced[0] if len(forced) == 1 else [world.task(k, forced[0])] + forced[1:]))
            mark = world.mark()
            try:
                world.chain(k).force(arg, recompute=recompute, delete_data=delete)
                ferr = None
            except Exception as e:        # forcing must work whatever the state of the store
                ferr = f'{type(e).__name__}: {e}'[:200]
            ctx.check_concrete(ferr is None, 'forced-flags', dict(info, force_raised=ferr))
            if ferr is not None:
                return
            marked = ref.force(k, forced, delete_data=delete)
            if not recompute and n == 2 and rnd == 0 and ctx.flag(f'reset_data{rnd}'):
                # dropping the in-memory value of a forced task does not un-force it
                for f_ in forced:
                    world.task(k, f_).reset_data()
            if recompute:
                exp = []
                for m in sorted(marked):
                    r, _, _ = ref.request(k, m)
                    exp += r
                runs = [r[0] for r in world.runs_since(mark)]
                ctx.check_concrete(sorted(runs) == sorted(exp), 'recompute-once', dict(info, ran=runs, expected=exp))
            else:
                ctx.check_concrete(not world.runs_since(mark), 'force-runs-nothing', dict(info, ran=repr(world.runs_since(mark))))
            flags = {nm: world.task(k, nm).is_forced for nm in names}
            expf = {nm: ref.obj(k, nm) in ref.forced for nm in names}
            ctx.check_concrete(flags == expf, 'forced-flags', dict(info, got=flags, expected=expf))
            hd = {nm: world.task(k, nm).has_data for nm in names}
            exph = {nm: ref.has_data(k, nm) for nm in names}
            ctx.check_concrete(hd == exph, 'deleted-exactly', dict(info, got=hd, expected=exph))
            if fail is not None:
                # the next run of `fail` raises once: request it, then everything proceeds normally
                slug = fail

                def boom(task, slug=slug):
                    family.FAIL.pop(slug, None)
                    raise hist.RunFailed(slug)
                family.FAIL[slug] = boom
                mark = world.mark()
                got = world.request(k, fail)
                exp_runs, outcome, _ = ref.request(k, fail, fail=slug)
                family.FAIL.pop(slug, None)
                runs = [r[0] for r in world.runs_since(mark)]
                trace.append(('request-failing', fail))
                info = dict(info, trace=list(trace))
                ctx.check_concrete(sorted(runs) == sorted(exp_runs) and got[0] == outcome, 'runs-after-force',
                                   dict(info, ran=runs, expected=exp_runs, outcome=got[0], expected_outcome=outcome))
            for step in range(h if rnd == 0 else 1):
                which = ctx.choice(f'req{rnd}_{step}', n + 1)
                if which == n:
                    break
                name = names[which]
                fresh = ctx.flag(f'fresh{rnd}_{step}') if step == 0 else False
                kk = k
                if fresh:
                    kk = world.build(0)
                    ref.build(0)
                trace.append(('request', name, 'fresh chain' if fresh else 'same chain'))
                info = {'dag': edges, 'kinds': kinds[:n], 'trace': list(trace)}
                mark = world.mark()
                exp_runs, outcome, exp_val = ref.request(kk, name)
                got = world.request(kk, name)
                runs = [r[0] for r in world.runs_since(mark)]
                ctx.check_concrete(sorted(runs) == sorted(exp_runs), 'runs-after-force',
                                   dict(info, ran=runs, expected=exp_runs))
                ok = got[0] == 'ok' and norm(got[1], None) == exp_val
                ctx.check_concrete(ok, 'value', dict(info, got=repr(got[1])[:200], expected=repr(exp_val)[:200]))
            rnd += 1
            if not (second and rnd == 1 and fail is None and not recompute and ctx.flag('second_force')):
                rnd = 2
        if True:
            # the store now holds, for every stored location, the latest computed value
            kf = world.build(0)
            ref.build(0)
            for nm in names:
                if ref.has_data(kf, nm):
                    mark = world.mark()
                    got = world.request(kf, nm)
                    exp_runs, _, exp_val = ref.request(kf, nm)
                    ok = got[0] == 'ok' and norm(got[1], None) == exp_val and not world.runs_since(mark)
                    nth = ref.stored[ref.loc(kf, nm)][1]      # which run of the task produced the stored result
                    if nth:
                        ri = world.task(kf, nm).run_info
                        ok = ok and ri is not None and ri['log'][0].get('nth_run_of_task') == nth
                    ctx.check_concrete(ok, 'stored-replaced', dict({'dag': edges, 'kinds': kinds[:n], 'trace': list(trace)},
                                                                  task=nm, got=repr(got[1])[:200]))
    return harness


def run_case(case, tier):
    ctx = explore.explore(make_harness(case, tier), max_paths=(80000 if tier == 'quick' else 3200000), time_budget_s=(500 if tier == 'quick' else 3600))
    return driver.result_from_ctx(ctx)
