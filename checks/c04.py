"""C04 — each computation runs at most once, and only on demand.

Real code executed: Chain construction, Task.data / value / _get_run_arguments / _process_run_result, the Data classes
over the model file system, and the inspection API (tasks_df, has_data, data_path, run_info, log, str(chain),
create_readable_filenames, is_task_dependent_on, required_tasks, dependent_tasks).
Symbolic (choice variables, decided by the solver and consulted lazily): which results already exist in the store
(any subset, every existing result being the value of the computation its location names), and a history of h
operations: request task j on the current / previous chain, inspection call i, build a new chain (own registry or
shared registry), restart.  Oracle: reference simulation (checks/hist.py): the run log of every step equals
"needed and missing closure of the request"; inspections run nothing; per location at most one run.
"""
import itertools

from sx import explore, driver
from checks import hist
from ref import family

PROPERTY = 'C04'
FUNCTIONS = ['taskchain.task.Task', 'taskchain.chain.Chain', 'taskchain.data']
EXPLANATION = ('Exhaustive, branch-driven symbolic exploration of the real Task.data / Chain code over the model file '
               'system: store pre-state bits and the operation at every history step are bounded symbolic integers the '
               'code-side harness branches on (feasibility decided by z3/cvc5); on every path the run log of each step '
               'is compared with the reference closure. By induction on the store invariant (every stored result is '
               'the value of the computation its location names) h steps from an arbitrary pre-state stand for '
               'histories of any length over the family.')
ASSUMPTIONS = ['file system = MFS model (sx/mfs.py); serialisers run for real on concrete payloads',
               'task run methods are deterministic tagging functions (ref/family.py)',
               'no forcing, failure or deletion inside the histories (those are C07 / C05)']
OUTSIDE = ['pipelines with more than 4 tasks', 'histories longer than h from a given pre-state (covered by induction '
           'only for the stated invariant)', 'separate OS processes (a restart drops every Python object instead)']
REACH = ['runs=closure', 'inspection-runs-nothing', 'at-most-once']

KINDS = [('json', 'json', 'json', 'json'), ('json', 'mem', 'dir', 'gen'), ('gen0', 'json', 'mem', 'json'),
         ('memlen', 'mem', 'json', 'dir')]
INSPECT = ['tasks_df', 'has_data', 'data_path', 'run_info', 'log', 'str', 'readable', 'dependent', 'required',
           'repr', 'contains']


def bounds(tier):
    return {'tasks': '<=3 with h=3; 4 with h=2' if tier == 'quick' else '<=4 with h=3',
            'pre_states': 'every subset of tasks having a stored result',
            'operations': ['request(any task, current or previous chain)'] + INSPECT + ['new chain', 'new chain (shared registry)', 'restart'],
            'data_kinds': KINDS}


def cases(tier):
    out = []
    q = tier == 'quick'
    for di in range(len(family.dag_specs(2))):
        for ki in range(len(KINDS)):
            out.append((2, di, ki, 3 if q else 4))
    for di in range(len(family.dag_specs(3))):
        for ki in range(len(KINDS)):
            if q and (di + ki) % 2:
                continue
            out.append((3, di, ki, 2 if q else 3))
    for di in range(len(family.dag_specs(4))):
        if q and di % 4 != 1:
            continue
        for part in range(4):         # the pre-state space is partitioned over worker processes
            out.append((4, di, di % len(KINDS), 2, part))
    for use_all in (0, 1):
        out.append(('lazy', use_all, 0, 2 if q else 3))
    out.append(('namemode-links', 0, 0, 0))
    return out


LAZY = [family.P('T0', params=[family.par('p0', default=0)]), family.P('T1', params=[family.par('p1', default=1)], data='dir'),
        family.P('T2', inputs=[family.inp('T0'), family.inp('T1')], params=[family.par('use_all', default=False)], access='lazy')]


def make_harness(case, tier):
    if case[0] == 'lazy':
        return lazy_harness(case)
    if case[0] == 'namemode-links':
        return namemode_links(case)
    n, di, ki, h = case[:4]
    part = case[4] if len(case) > 4 else None
    hist.setup(full=False)
    edges, spec = family.dag_specs(n)[di]
    kinds = KINDS[ki]
    spec = [dict(t, data=kinds[j]) for j, t in enumerate(spec)]
    names = [f't{j}' for j in range(n)]
    ops = [('req', j) for j in range(n)] + [('reqprev', j) for j in range(n)] + [('insp', 0)] \
        + [('new', 0), ('newshared', 0), ('restart', 0)] + ([('new+req+reqprev', n - 1)] if n == 2 else [])

    def harness(ctx):
        world = hist.World(spec, [{}])
        ref = hist.Ref(spec, [{}])
        if part is None:
            mask = ctx.choice('pre', 1 << n)
        else:
            mask = part * ((1 << n) // 4) + ctx.choice('pre', (1 << n) // 4)
        subset = {names[j] for j in range(n) if mask >> j & 1}
        hist.prestate(world, ref, 0, subset)
        cur = world.build(0, registry='r0')
        ref.build(0, registry='r0')
        prev = None
        total = {}
        trace = [('pre', sorted(subset))]
        for step in range(h):
            op, arg = ops[ctx.choice(f'op{step}', len(ops))]
            trace.append((op, arg))
            mark = world.mark()
            info = {'dag': edges, 'kinds': kinds[:n], 'trace': list(trace)}
            if op == 'new+req+reqprev':
                # another chain computes what the first one had only looked at; then the first one asks
                prev = cur
                cur = world.build(0, registry=f'r{step + 1}')
                ref.build(0, registry=f'r{step + 1}')
                for k in (cur, prev):
                    mark = world.mark()
                    exp_runs, _, exp_val = ref.request(k, names[arg])
                    got = world.request(k, names[arg])
                    runs = [r[0] for r in world.runs_since(mark)]
                    ctx.check_concrete(sorted(runs) == sorted(exp_runs), 'runs=closure',
                                       dict(info, ran=runs, expected=exp_runs, chain='new' if k == cur else 'previous'))
                continue
            if op in ('req', 'reqprev'):
                k = cur if op == 'req' else prev
                if k is None:
                    continue
                name = names[arg]
                exp_runs, outcome, exp_val = ref.request(k, name)
                got = world.request(k, name)
                runs = [r[0] for r in world.runs_since(mark)]
                ctx.check_concrete(sorted(runs) == sorted(exp_runs), 'runs=closure',
                                   dict(info, ran=runs, expected=exp_runs))
                ok = got[0] == 'ok' and norm(got[1], world.task(k, name)) == norm_ref(exp_val, ref.ev(k)[name])
                ctx.check_concrete(ok, 'value', dict(info, got=repr(got[1])[:200], expected=repr(exp_val)[:200]))
                for r in world.runs_since(mark):
                    t = world.task(k, r[0])
                    key = str(t.data_path) if t.data_path is not None else ('obj', r[1])
                    total[key] = total.get(key, 0) + 1
                ctx.check_concrete(all(v <= 1 for v in total.values()), 'at-most-once', dict(info, counts=repr(total)))
            elif op == 'insp':
                for what in INSPECT:
                    inspect(world, cur, names, what)
                    runs = world.runs_since(mark)
                    ctx.check_concrete(not runs, 'inspection-runs-nothing', dict(info, call=what, ran=repr(runs)))
                for nm in names:
                    ctx.check_concrete(world.task(cur, nm).has_data == ref.has_data(cur, nm), 'has_data',
                                       dict(info, task=nm, got=world.task(cur, nm).has_data))
            elif op in ('new', 'newshared'):
                prev = cur
                reg = 'r0' if op == 'newshared' else f'r{step + 1}'
                cur = world.build(0, registry=reg)
                ref.build(0, registry=reg)
                ctx.check_concrete(not world.runs_since(mark), 'inspection-runs-nothing',
                                   dict(info, call='Chain()', ran=repr(world.runs_since(mark))))
            elif op == 'restart':
                world.drop_chains()
                ref.drop_chains()
                prev = None
                cur = world.build(0, registry='r0')
                ref.build(0, registry='r0')
    return harness


def namemode_links(case):
    """results stored under config names: creating readable links (whose default name IS the config name) and the
    other inspection calls leave the results where they are"""
    hist.setup(full=False)

    def harness(ctx):
        from taskchain import Config, Chain
        edges, spec = family.dag_specs(3)[5]
        kinds = KINDS[ctx.choice('kinds', len(KINDS))]
        spec = [dict(t, data=kinds[j]) for j, t in enumerate(spec)]
        world = hist.World(spec, [{}])

        def chain():
            return Chain(Config(world.fs.path('/data'), name='experiment', data={'tasks': list(world.classes.values())}),
                         parameter_mode=False)
        c1 = chain()
        for t in ('t0', 't1', 't2'):
            c1.tasks[t].value
        have = {t: c1.tasks[t].has_data for t in ('t0', 't1', 't2')}
        named = ctx.flag('explicit_link_name')
        info = {'mode': 'name', 'kinds': kinds[:3], 'explicit_link_name': named}
        try:
            c1.create_readable_filenames(name='pretty' if named else None)
            c1.create_readable_filenames(name='pretty' if named else None, keep_existing=ctx.flag('keep_existing'))
            del family.RUNLOG[:]
            c2 = chain()
            after = {t: c2.tasks[t].has_data for t in ('t0', 't1', 't2')}
            for t in ('t0', 't1', 't2'):
                c2.tasks[t].value
        except Exception as e:       # stored results must stay readable
            ctx.check_concrete(False, 'inspection-runs-nothing', dict(info, error=f'{type(e).__name__}: {e}'[:200]))
            return
        ctx.check_concrete(after == have, 'inspection-runs-nothing', dict(info, has_data_before=have, has_data_after=after))
        ran = [r[0] for r in family.RUNLOG if have.get(r[0])]
        ctx.check_concrete(not ran, 'at-most-once', dict(info, ran_again=ran))
    return harness


def lazy_harness(case):
    """a task whose run reads its second input only when asked to: the unread input must not be computed"""
    _, use_all, _, h = case
    hist.setup(full=False)
    names = ['t0', 't1', 't2']

    def harness(ctx):
        cfgv = {'use_all': bool(use_all)}
        world = hist.World(LAZY, [cfgv])
        ref = hist.Ref(LAZY, [cfgv])
        mask = ctx.choice('pre', 8)
        subset = {names[j] for j in range(3) if mask >> j & 1}
        hist.prestate(world, ref, 0, subset)
        cur = world.build(0)
        ref.build(0)
        trace = [('pre', sorted(subset)), ('use_all', bool(use_all))]
        for step in range(h):
            j = ctx.choice(f'req{step}', 3)
            trace.append(('req', names[j]))
            mark = world.mark()
            exp_runs, _, exp_val = ref.request(cur, names[j])
            got = world.request(cur, names[j])
            runs = [r[0] for r in world.runs_since(mark)]
            info = {'pipeline': 'lazy sink', 'trace': list(trace)}
            ctx.check_concrete(sorted(runs) == sorted(exp_runs), 'runs=closure', dict(info, ran=runs, expected=exp_runs))
            ctx.check_concrete(got[0] == 'ok' and norm(got[1], None) == exp_val, 'value',
                               dict(info, got=repr(got[1])[:200], expected=repr(exp_val)[:200]))
    return harness


def norm(v, task):
    """Values as comparable data: directory results by the content of out.json, lazy generators as lists."""
    return family.norm_input(v)


def norm_ref(v, info):
    return v


def inspect(world, k, names, what):
    ch = world.chain(k)
    if what == 'tasks_df':
        ch.tasks_df
    elif what == 'has_data':
        [t.has_data for t in ch.tasks.values()]
    elif what == 'data_path':
        [t.data_path for t in ch.tasks.values()]
    elif what == 'run_info':
        [t.run_info for t in ch.tasks.values() if t.data_path is not None]
    elif what == 'log':
        [t.log for t in ch.tasks.values() if t.data_path is not None]
    elif what == 'str':
        str(ch)
        repr(ch)
    elif what == 'readable':
        ch.create_readable_filenames(name='readable')
    elif what == 'dependent':
        [ch.dependent_tasks(n) for n in names]
        ch.is_task_dependent_on(names[-1], names[0])
    elif what == 'required':
        [ch.required_tasks(n, include_self=True) for n in names]
    elif what == 'repr':
        [(repr(t), str(t), t._repr_markdown_()) for t in ch.tasks.values()]
    elif what == 'contains':
        [(n in ch, ch[n], ch.get(n)) for n in names]
        getattr(ch, names[0])


def run_case(case, tier):
    ctx = explore.explore(make_harness(case, tier), max_paths=(60000 if tier == 'quick' else 2400000), time_budget_s=(400 if tier == 'quick' else 3600))
    return driver.result_from_ctx(ctx)
