"""C14 — file caches return the value for the key, or recompute.

sym:  JsonCache / InMemoryCache with SYMBOLIC keys (unbounded strings; file names are terms over the uninterpreted
      hash) and opaque symbolic values over the model file system; a sequence of <= 3 operations (get, get_or_compute
      with force / raising computer) on the cache or a sub-cache, from a symbolic pre-state (absent / intact for this or
      another key / damaged).  Returned terms, compute counts and the "recorded for another key" report are compared
      with a dictionary model by the solver.
pool: DataFrameCache / NumpyArrayCache / JsonCache with concrete keys and values through the REAL numpy / pandas /
      orjson; every kind of truncation of the stored file (symbolic choice of the cut), empty file, round trip.
"""
import z3

from sx import explore, driver, instr, mfs, env, replay as _rp
from sx.sym import Sym, to_bool_term
from checks import keylib
from checks.c01 import value_eq

PROPERTY = 'C14'
FUNCTIONS = ['taskchain.cache.FileCache', 'taskchain.cache.JsonCache', 'taskchain.cache.DataFrameCache',
             'taskchain.cache.NumpyArrayCache', 'taskchain.cache.InMemoryCache']
EXPLANATION = ('Symbolic execution of the real FileCache.get / get_or_compute / filepath / subcache and the '
               'save_value / load_value pairs over the model file system: keys are unbounded SMT strings (cache file '
               'names are terms over the uninterpreted injective hash, "same file?" is a solver-decided branch), values '
               'opaque; each operation\'s result term and compute count is compared with a dictionary model by '
               'cvc5/z3. Truncations and the numpy/pandas caches run on concrete pool values through the real '
               'serialisers, the cut position chosen symbolically.')
ASSUMPTIONS = ['sha256 = uninterpreted function with collision-free 32-hex prefix', 'file system = MFS model',
               'filelock = model mutex', 'opaque values follow the serialiser contract; damaged file = load raises']
OUTSIDE = ['more than 3 operations from a pre-state', 'keys that are not text', 'concurrency (C15)']
REACH = ['returns-model-value', 'compute-count', 'damaged-recomputed', 'other-key-reported', 'roundtrip']


def bounds(tier):
    return {'operations': 2 if tier == 'quick' else 3, 'keys': '2 symbolic strings (unbounded)', 'subcaches': 2,
            'truncation_cuts': ['0', '1', 'half', 'len-1'], 'pool': 'json / numpy (incl. object dtype) / DataFrame values'}


def cases(tier):
    out = []
    n = 2 if tier == 'quick' else 3
    for ctype in ('json', 'json-nonone', 'mem'):
        for pre in ('absent', 'intact', 'other', 'damaged'):
            if ctype == 'mem' and pre in ('other', 'damaged'):
                continue
            out.append(('sym', ctype, pre, n))
    for ctype in ('json', 'npy', 'pd'):
        for vi in range(4):
            out.append(('pool', ctype, vi, 0))
    return out


class Raised(Exception):
    pass


def quiet(C):
    """the cache module logs load failures to stdout: keep the handlers off the terminal (the logging calls still run)"""
    import logging
    C.logger.handlers[:] = [logging.NullHandler()]
    C.logger.propagate = False


def _prefix_pair():
    """two keys whose sha256 digests share the first 5 hex digits (same cache sub-directory)"""
    import hashlib
    seen = {}
    i = 0
    while True:
        k = f'key{i}'
        p = hashlib.sha256(k.encode()).hexdigest()[:5]
        if p in seen:
            return seen[p], k
        seen[p] = k
        i += 1


PREFIX_PAIR = _prefix_pair()


def make_harness(case, tier):
    if case[0] == 'sym':
        return sym(case)
    return pool(case)


def sym(case):
    _, ctype, pre, nops = case
    keylib.setup(full=True, hash_mode='auto')

    def harness(ctx):
        import taskchain.cache as C
        quiet(C)
        fs = keylib.fresh_fs()
        root = fs.path('/cache')
        if ctype == 'mem':
            cache = C.InMemoryCache()
        else:
            cache = C.JsonCache(root, allow_nones=(ctype == 'json'))
        # keys become path components through the real hashlib: concrete pool (incl. two keys whose digests share the
        # 5-hex directory prefix), chosen symbolically; only their equality pattern matters to the code
        pairs = [('', 'key'), ('key', 'ключ \U0001f511'), PREFIX_PAIR, ('k' * 3000, 'k' * 2999)]
        k1, k2 = pairs[ctx.choice('keys', len(pairs))]
        keys = [k1, k2]
        model = [{} for _ in range(3)]   # main, sub a, sub b
        caches = [cache, cache.subcache('a'), cache.subcache('b')]
        trace = []
        fresh = [0]
        foreign_state = [False]     # the file of k1 (main cache) holds an entry recorded for another key

        def newval():
            fresh[0] += 1
            if fresh[0] == 2 and ctype != 'json-nonone' and ctx.flag('second_value_is_None'):
                return None            # None is a value like any other (unless the cache was told not to allow it)
            if fresh[0] == 1 and ctype == 'json-nonone':
                k_ = ctx.choice('first_value_kind', 6)       # falsy values are values (only None is refused)
                if k_:
                    return [None, 0, '', [], False, {}][k_]
            return ctx.sym_val(f'v{fresh[0]}')
        # ---- pre-state of key k1 in the main cache
        if pre == 'intact':
            v0 = newval()
            cache.get_or_compute(k1, lambda: v0)
            model[0][k1] = v0
        elif pre == 'other':
            # the file of k1 holds an entry recorded for another key: write k2's entry, then move it under k1's name
            v0 = newval()
            cache.get_or_compute(k2, lambda: v0)
            p1, p2 = cache.filepath(k1), cache.filepath(k2)
            sh = mfs.Shutil(fs) if not keylib.in_replay() else __import__('shutil')
            sh.move(p2 if not keylib.in_replay() else str(p2), p1 if not keylib.in_replay() else str(p1))
            foreign_state[0] = True
        elif pre == 'damaged':
            p1 = cache.filepath(k1)
            kind = ctx.choice('damage', 2)
            h = p1.open('w')
            if kind == 1:
                h.write('{"key": "x", "val')
            h.close()
        info = {'cache': ctype, 'pre': pre}
        for step in range(nops):
            op = ctx.choice(f'op{step}', 5)       # 0 get, 1 get_or_compute, 2 forced, 3 computer raises, 4 forced + raises
            ki = ctx.choice(f'key{step}', 2)
            ci = ctx.choice(f'cache{step}', 3) if step else 0
            key, cch, mdl = keys[ki], caches[ci], model[ci]
            trace.append((['get', 'get_or_compute', 'force', 'raising', 'force+raising'][op], f'k{ki + 1}', ['main', 'sub a', 'sub b'][ci]))
            info = {'cache': ctype, 'pre': pre, 'trace': list(trace)}
            foreign = (ci == 0 and foreign_state[0] and bool(key == k1)) if pre == 'other' else False
            calls = []

            def computer(raise_=(op in (3, 4))):
                calls.append(1)
                if raise_:
                    raise Raised()
                v = newval()
                calls.append(v)
                return v
            try:
                if op == 0:
                    got = ('ret', cch.get(key))
                else:
                    got = ('ret', cch.get_or_compute(key, computer, force=(op in (2, 4))))
            except Raised:
                got = ('raised', None)
            except C.CacheException:
                got = ('cache-exception', None)
            # ---- dictionary model
            present = key in mdl
            if foreign and op in (0, 1, 3):
                ctx.check_concrete(got[0] == 'cache-exception', 'other-key-reported', dict(info, got=got[0]))
                continue
            if foreign and op == 2:
                foreign_state[0] = False
            if op == 0:
                exp = mdl[key] if present else C.NO_VALUE
                ok = got[0] == 'ret' and (value_eq(got[1], exp) if present else z3.BoolVal(got[1] is C.NO_VALUE))
                ctx.check(ok, 'returns-model-value', dict(info, present=present))
                ctx.check_concrete(not calls, 'compute-count', dict(info, calls=len(calls)))
            elif op == 1:
                if present:
                    ctx.check(z3.And(z3.BoolVal(got[0] == 'ret'), value_eq(got[1], mdl[key]) if got[0] == 'ret' else z3.BoolVal(False)),
                              'returns-model-value', dict(info, present=True))
                    ctx.check_concrete(not calls, 'compute-count', dict(info, calls=len(calls)))
                else:
                    ok = got[0] == 'ret' and len(calls) == 2 and got[1] is calls[1]
                    ctx.check_concrete(ok, 'damaged-recomputed' if pre == 'damaged' else 'compute-count',
                                       dict(info, got=got[0], calls=len(calls)))
                    if ok:
                        mdl[key] = calls[1]
            elif op == 2:
                ok = got[0] == 'ret' and len(calls) == 2 and got[1] is calls[1]
                ctx.check_concrete(ok, 'compute-count', dict(info, got=got[0], calls=len(calls), forced=True))
                if ok:
                    mdl[key] = calls[1]
            elif op == 4:
                # a forced computation that raises stores nothing: whatever was stored intact stays (checked by the
                # final get of every model entry)
                ctx.check_concrete(got[0] == 'raised' and len(calls) == 1, 'compute-count', dict(info, raising=True, forced=True, got=got[0]))
            else:
                if present:
                    ctx.check_concrete(got[0] == 'ret' and not calls, 'compute-count', dict(info, raising=True, got=got[0]))
                else:
                    ctx.check_concrete(got[0] == 'raised' and len(calls) == 1, 'compute-count',
                                       dict(info, raising=True, got=got[0]))
        # ---- at the end every model entry is returned by get, nothing else is
        for ci, (cch, mdl) in enumerate(zip(caches, model)):
            for key in keys:
                if ci == 0 and foreign_state[0] and bool(key == k1):
                    continue
                try:
                    g = cch.get(key)
                except C.CacheException:
                    g = 'cache-exception'
                if key in mdl:
                    ctx.check(value_eq(g, mdl[key]), 'roundtrip', dict(info, final=True, cache=ci))
                else:
                    ctx.check_concrete(g is C.NO_VALUE, 'roundtrip', dict(info, final=True, cache=ci, absent=True, got=repr(g)[:80]))
    return harness


def pool_values(ctype):
    import numpy as np
    import pandas as pd
    if ctype == 'json':
        return [{'a': [1, 2.5, None, 'x']}, [], 0, 'text \U0001f600']
    if ctype == 'npy':
        return [np.arange(5), np.array([[1.5, 2.5]]), np.array([{'a': 1}, [1, 2], 'x'], dtype=object), np.array(3)]
    return [pd.DataFrame({'a': [1, 2], 'b': ['x', 'y']}), pd.DataFrame(), pd.Series([1.5, 2.5], name='s'),
            pd.DataFrame({'c': [None, 1.0]}, index=['r', 's'])]


def pool(case):
    _, ctype, vi, _ = case
    keylib.setup(full=True, hash_mode='auto')

    def harness(ctx):
        import taskchain.cache as C
        quiet(C)
        from checks.c06 import same
        fs = keylib.fresh_fs()
        cls = {'json': C.JsonCache, 'npy': C.NumpyArrayCache, 'pd': C.DataFrameCache}[ctype]
        cache = cls(fs.path('/cache'))
        keys = ['', 'key', 'ключ \U0001f511', 'k' * 3000]
        key = keys[ctx.choice('key', len(keys))]
        value = pool_values(ctype)[vi]
        calls = []

        def computer():
            calls.append(1)
            return value
        info = {'cache': ctype, 'key': key[:40], 'value': repr(value)[:200]}
        got = cache.get_or_compute(key, computer)
        ctx.check_concrete(same(got, value) and len(calls) == 1, 'roundtrip', dict(info, stage='computed'))
        got2 = cache.get(key)
        got3 = cache.get_or_compute(key, computer)
        ctx.check_concrete(same(got2, value) and same(got3, value) and len(calls) == 1, 'roundtrip',
                           dict(info, stage='loaded', got=repr(got2)[:200], calls=len(calls)))
        for other in keys:
            if other != key:
                ctx.check_concrete(cache.get(other) is C.NO_VALUE, 'roundtrip', dict(info, other_key=other[:40]))
        ctx.check_concrete(cache.subcache('s').get(key) is C.NO_VALUE, 'roundtrip', dict(info, subcache=True))
        # ---- every kind of truncation of the stored file
        p = cache.filepath(key)
        with p.open('rb') as f:
            data = f.read()
        if isinstance(data, str):
            data = data.encode()
        n = len(data)
        cut = [0, 1, 2, n // 2, n - 1][ctx.choice('cut', 5)]
        cut = max(0, min(cut, n - 1))
        h = p.open('wb')
        h.write(data[:cut])
        h.close()
        info = dict(info, truncated_to=cut, of=n)
        try:
            g = cache.get(key)
            err = None
        except C.CacheException as e:
            g, err = None, 'CacheException'
        except Exception as e:
            g, err = None, f'{type(e).__name__}: {e}'[:120]
        ctx.check_concrete(err is None and g is C.NO_VALUE, 'damaged-recomputed', dict(info, call='get', got=repr(g)[:100], error=err))
        calls2 = []

        def computer2():
            calls2.append(1)
            return value
        try:
            g2 = cache.get_or_compute(key, computer2)
            err = None
        except Exception as e:
            g2, err = None, f'{type(e).__name__}: {e}'[:120]
        ctx.check_concrete(err is None and same(g2, value) and len(calls2) == 1, 'damaged-recomputed',
                           dict(info, call='get_or_compute', error=err, calls=len(calls2)))
        try:
            g3 = cache.get(key)
            ok3 = same(g3, value)
            err = None
        except Exception as e:
            ok3, err = False, f'{type(e).__name__}: {e}'[:120]
        ctx.check_concrete(ok3, 'roundtrip', dict(info, stage='after recomputation', error=err))
    return harness


def run_case(case, tier):
    ctx = explore.explore(make_harness(case, tier), max_paths=(20000 if tier == 'quick' else 800000), time_budget_s=(500 if tier == 'quick' else 3600), decide_timeout_ms=30000)
    return driver.result_from_ctx(ctx)
