"""Replay of a C03 counterexample on the plain library: two configurations, compare values and storage locations."""
import pathlib
import shutil
import tempfile

from checks.c12_replay import undescribe, build


def main(spec):
    from ref import family
    from ref.family import P, par, inp
    from taskchain import Config, Chain
    tmp = pathlib.Path(tempfile.mkdtemp(prefix='c03replay'))
    try:
        sc = spec['scenario']
        HOLD = [P('Holder', params=[par('v'), par('w', default='d', dpdv=True)]),
                P('Next', inputs=[inp('Holder')], params=[par('u', default=None)]),
                P('Last', inputs=[inp('next', 'name')], data='dir')]
        if sc == 'value':
            v1, v2 = undescribe(spec['v1']), undescribe(spec['v2'])
            c1 = build(tmp, HOLD, {'v': v1}, None, None, name='one')
            c2 = build(tmp, HOLD, {'v': v2}, None, None, name='two')
            t = spec.get('task', 'holder')
            p1, p2 = c1.tasks[t].data_path, c2.tasks[t].data_path
            h1, h2 = c1.tasks['holder'].data_path, c2.tasks['holder'].data_path
            if 'task' in spec:
                bad = (h1 != h2) and p1 == p2
            else:
                bad = (v1 != v2) and p1 == p2
            if bad:
                a = c1.tasks[t].value
                b = c2.tasks[t].value
                print(f'values {v1!r} and {v2!r} differ but task `{t}` gets the same location {p1.name};')
                print('  second chain returns', b, 'instead of a value computed from', repr(v2))
            return bad
        if sc == 'registry':
            spec_t = [P('Multi', params=[par('a'), par('b', default='bd', dpdv=True), par('c', default=0),
                                         par('ab', default=None, dpdv=True), par('ig', default=0, ignore=True)])]
            v1, v2 = undescribe(spec['v1']), undescribe(spec['v2'])
            c1 = build(tmp, spec_t, v1, None, None, name='one')
            c2 = build(tmp, spec_t, v2, None, None, name='two')
            diff = any(v1[k] != v2[k] for k in ('a', 'b', 'c', 'ab'))
            same = c1.tasks['multi'].data_path == c2.tasks['multi'].data_path
            if diff and same:
                print('parameters', v1, 'and', v2, 'share the location', c1.tasks['multi'].data_path.name)
            return diff and same
        if sc in ('custom', 'sized'):
            from ref import pobjects as PO
            spec_t = [P('Obj', params=[par('o')]), P('Use', inputs=[inp('Obj')])]
            a, b = spec['v1'], spec['v2']
            mk = (lambda x: PO.Custom(x[0], x[1])) if sc == 'custom' else (lambda x: PO.Sized(x[0], tags=[x[1], 7], rate=x[2]))
            c1 = build(tmp, spec_t, {'o': mk(a)}, None, None, name='one')
            c2 = build(tmp, spec_t, {'o': mk(b)}, None, None, name='two')
            t = spec.get('task', 'obj')
            if 'task' in spec:
                bad = c1.tasks['obj'].data_path != c2.tasks['obj'].data_path and c1.tasks[t].data_path == c2.tasks[t].data_path
            else:
                bad = a != b and c1.tasks[t].data_path == c2.tasks[t].data_path
            if bad:
                print('object arguments', a, 'and', b, 'task', t, 'share the location', c1.tasks[t].data_path.name)
            return bad
        if sc == 'wiring':
            s = spec['sizes']
            ds = [P('Dataset', params=[par('size')])]
            mg = [P('Merge', inputs=[inp('train::dataset', 'name'), inp('valid::dataset', 'name')]),
                  P('Report', inputs=[inp('Merge')])]
            chains = []
            for n, (a, b) in enumerate(((s[0], s[1]), (s[2], s[3]))):
                dcl = family.make_pipeline(ds)
                mcl = family.make_pipeline(mg)
                ct = Config(tmp, name=f'tr{n}', namespace='train', data={'tasks': list(dcl.values()), 'size': a})
                cv = Config(tmp, name=f'va{n}', namespace='valid', data={'tasks': list(dcl.values()), 'size': b})
                chains.append(Chain(Config(tmp, name=f'main{n}', data={'tasks': list(mcl.values()), 'uses': [ct, cv]})))
            t = spec['task']
            bad = (s[0], s[1]) != (s[2], s[3]) and chains[0].tasks[t].data_path == chains[1].tasks[t].data_path
            if bad:
                v1 = chains[0].tasks[t].value
                v2 = chains[1].tasks[t].value
                print(f'dataset sizes train/valid = {s[0]}/{s[1]} and {s[2]}/{s[3]}: task `{t}` has one location for both;')
                print('  second chain returns', v2)
            return bad
        if sc in ('optional', 'optional-base'):
            cl = family.make_pipeline(family.OPTIONAL)
            w = Chain(Config(tmp, name='w', data={'tasks': list(cl.values()), 'x': spec['x'], 'e': spec['e']}))
            cl2 = family.make_pipeline(family.OPTIONAL)
            wo = Chain(Config(tmp, name='wo', data={'tasks': [cl2['Base'], cl2['User']], 'x': spec['x']}))
            if sc == 'optional':
                bad = w.tasks['user'].data_path == wo.tasks['user'].data_path
            else:
                bad = w.tasks['base'].data_path != wo.tasks['base'].data_path
            if bad:
                print('optional input present/absent:', sc, w.tasks['user'].data_path.name, wo.tasks['user'].data_path.name)
            return bad
        if sc == 'distance':
            (x1, r1), (x2, r2) = spec['v1'], spec['v2']
            c1 = build(tmp, family.DIAMOND, {'x': x1, 'right_value': r1}, None, None, name='one')
            c2 = build(tmp, family.DIAMOND, {'x': x2, 'right_value': r2}, None, None, name='two')
            t = spec['task']
            dep = (x1 != x2) if t in ('src', 'g:left') else (x1 != x2 or r1 != r2)
            bad = dep and c1.tasks[t].data_path == c2.tasks[t].data_path
            if bad:
                print(f'upstream parameters {(x1, r1)!r} vs {(x2, r2)!r}: task `{t}` keeps the location', c1.tasks[t].data_path.name)
            return bad
        raise ValueError(sc)
    finally:
        shutil.rmtree(tmp, ignore_errors=True)
