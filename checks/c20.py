"""C20 — migration to parameter mode carries every result over unchanged.

Real code executed: taskchain.utils.migration.migrate_to_parameter_mode with both chain modes over the model file
system (config files themselves are real temporary files: config loading is not under test).
Symbolic (choice variables): which tasks were computed in name mode (every subset), dry / real, repeated migration,
config name (plain / dotted), context overriding a persisted parameter or not, global_vars or not.
Oracle: after dry=False the parameter-mode chain on the target has a result for exactly the computed tasks, loads
equal values and runs nothing for them; the source tree is unchanged; a second migration changes nothing; dry=True
writes no result file.
"""
import json
import os
import shutil
import tempfile

from sx import explore, driver, replay as _rp
from checks import hist, keylib
from ref import family
from ref.family import P, par, inp

PROPERTY = 'C20'
FUNCTIONS = ['taskchain.utils.migration', 'taskchain.chain', 'taskchain.task.Task', 'taskchain.data']
EXPLANATION = ('Exhaustive branch-driven symbolic exploration of the real migrate_to_parameter_mode over the model file '
               'system: computed subset, dry flag, repetition, config naming, context and global_vars are bounded '
               'symbolic integers; on every path the target chain, the source tree and the written files are compared '
               'with the reference.')
ASSUMPTIONS = ['file system = MFS model (copyfile / copytree modelled on it)', 'config files are real temporary files']
OUTSIDE = ['pandas results (size comparison tolerance)', 'pipelines other than the four-task family member']
REACH = ['migrated-exactly', 'values-equal', 'source-unchanged', 'second-migration-noop', 'dry-writes-nothing']
TMPDIR_FINDING = 'C20-tmp-dir-in-source'

PIPE = [P('Numbers', params=[par('scale', default=1), par('src', default='s')]),
        P('Shards', inputs=[inp('Numbers')], data='dir'),
        P('Lines', inputs=[inp('Numbers')], data='gen', params=[par('n', default=3)]),
        P('Memo', inputs=[inp('Lines')], data='mem'),
        P('Nothing', inputs=[inp('Numbers')], data='gen0')]
NAMES = ['numbers', 'shards', 'lines', 'nothing']


def bounds(tier):
    return {'pipeline': 'numbers(json) -> shards(dir), lines(jsonl) -> memo(mem)', 'computed_subsets': 8,
            'config_names': ['base', 'exp.v2'], 'context': [None, {'scale': 10}], 'global_vars': [None, {'ROOT': 'r'}],
            'dry': [True, False], 'repeat': [False, True]}


def cases(tier):
    return [(name, cx) for name in ('base', 'exp.v2') for cx in (0, 1)] + [('mounts', 0), ('mounts', 1)]


def mounts_harness(case):
    """one pipeline file mounted under two namespaces with different parameter values (two files, same task classes)"""
    _, with_context = case

    def harness(ctx):
        from taskchain import Config
        from taskchain.utils.migration import migrate_to_parameter_mode
        import ref.family_gen as FG
        import io
        import contextlib
        world = hist.World(PIPE, [{}])
        fs = world.fs
        for n, c in world.classes.items():
            setattr(FG, n, c)
        fs.path('/dst').mkdir(parents=True, exist_ok=True) if _rp.MODE['replay'] else fs.path('/dst').mkdir(parents=True)
        d = tempfile.mkdtemp(dir=_rp.MODE['tmp']) if _rp.MODE['replay'] else tempfile.mkdtemp(prefix='c20cfg')
        try:
            for i, scale in ((1, 2), (2, 3)):
                with open(os.path.join(d, f'sub{i}.json'), 'w') as f:
                    json.dump({'tasks': [f'ref.family_gen.{n}' for n in world.classes], 'scale': scale}, f)
            mp = os.path.join(d, 'main.json')
            with open(mp, 'w') as f:
                json.dump({'uses': [f'{d}/sub1.json as n1', f'{d}/sub2.json as n2']}, f)
            context = {'for_namespaces': {'n1': {'n': 4}}} if with_context else None
            src, dst = fs.path('/data'), fs.path('/dst')
            names = [f'{ns}::{t}' for ns in ('n1', 'n2') for t in NAMES[:3]]
            mask = ctx.choice('computed', 8)
            computed = [names[j] for j in ((0, 3), (1, 4), (2, 5), (0, 4), (3,), (2,), (1, 2, 3, 4), ())[mask]]
            info = {'scenario': 'two mountings', 'context': context, 'computed': computed}
            old = Config(src, mp, context=context).chain(parameter_mode=False)
            for n in computed:
                old[n].value
            have = {n for n in names if old[n].has_data}
            with contextlib.redirect_stdout(io.StringIO()):
                migrate_to_parameter_mode(Config(src, mp, context=context), dst, dry=False, verbose=False)
            del family.RUNLOG[:]
            new = Config(dst, mp, context=context).chain()
            got_have = {n for n in names if new[n].has_data}
            ctx.check_concrete(got_have == have, 'migrated-exactly', dict(info, has_data=sorted(got_have), expected=sorted(have)))
            for n in sorted(have & got_have):
                v = family.norm_input(new[n].value)
                exp = family.norm_input(old[n].value)
                ctx.check_concrete(v == exp and n not in [r[0] for r in family.RUNLOG], 'values-equal',
                                   dict(info, task=n, got=repr(v)[:200], expected=repr(exp)[:200]))
        finally:
            if not _rp.MODE['replay']:
                shutil.rmtree(d, ignore_errors=True)
    return harness


def make_harness(case, tier):
    cname, with_context = case
    hist.setup(full=False)
    if cname == 'mounts':
        return mounts_harness(case)

    def harness(ctx):
        from taskchain import Config
        from taskchain.utils.migration import migrate_to_parameter_mode
        import ref.family_gen as FG
        world = hist.World(PIPE, [{}])
        fs = world.fs
        for n, c in world.classes.items():
            setattr(FG, n, c)
        fs.path('/dst').mkdir(parents=True) if not _rp.MODE['replay'] else fs.path('/dst').mkdir(parents=True, exist_ok=True)
        d = tempfile.mkdtemp(dir=_rp.MODE['tmp']) if _rp.MODE['replay'] else tempfile.mkdtemp(prefix='c20cfg')
        try:
            gv = {'ROOT': 'r'} if ctx.flag('gv') else None
            data = {'tasks': [f'ref.family_gen.{n}' for n in world.classes]}
            if gv:
                data['src'] = '{ROOT}/in'
            cpath = os.path.join(d, cname + '.json')
            with open(cpath, 'w') as f:
                json.dump(data, f)
            context = {'scale': 10} if with_context else None
            src, dst = fs.path('/data'), fs.path('/dst')
            mask = ctx.choice('computed', 16)
            computed = [NAMES[j] for j in range(4) if mask >> j & 1]
            dry = ctx.flag('dry')
            repeat = ctx.flag('repeat')
            info = {'config': cname, 'context': context, 'global_vars': gv, 'computed': computed, 'dry': dry, 'repeat': repeat}

            def mkcfg(base):
                return Config(base, cpath, global_vars=gv, context=context)
            # ---- name mode: compute the chosen subset (and whatever it needs)
            old = mkcfg(src).chain(parameter_mode=False)
            values = {}
            for n in computed:
                values[n] = family.norm_input(old[n].value)
            have = {n for n in NAMES if old[n].has_data}
            before = snapshot(fs, '/data')
            # ---- migrate
            import io
            import contextlib
            with contextlib.redirect_stdout(io.StringIO()):
                migrate_to_parameter_mode(mkcfg(src), dst, dry=dry, verbose=bool(mask & 1))
                after1 = snapshot(fs, '/dst')
                if repeat:
                    migrate_to_parameter_mode(mkcfg(src), dst, dry=dry, verbose=False)
            after = snapshot(fs, '/data')
            known = None
            diff = {k: v for k, v in after.items() if before.get(k) != v}
            gone = [k for k in before if k not in after]
            if not gone and diff and all(k.endswith('_tmp') and v == 'dir' for k, v in diff.items()):
                known = TMPDIR_FINDING
            ctx.check_concrete(before == after, 'source-unchanged', dict(info, added=sorted(diff), removed=gone),
                               known_id=known)
            target = snapshot(fs, '/dst')
            if repeat:
                ctx.check_concrete(files_only(after1) == files_only(target), 'second-migration-noop',
                                   dict(info, first=sorted(files_only(after1)), second=sorted(files_only(target))))
            if dry:
                ctx.check_concrete(not files_only(target), 'dry-writes-nothing', dict(info, files=sorted(files_only(target))))
                return
            # ---- the parameter-mode chain on the target directory
            del family.RUNLOG[:]
            new = mkcfg(dst).chain()
            got_have = {n for n in NAMES if new[n].has_data}
            ctx.check_concrete(got_have == have, 'migrated-exactly', dict(info, has_data=sorted(got_have), expected=sorted(have)))
            for n in sorted(have & got_have):
                v = family.norm_input(new[n].value)
                exp = family.norm_input(old[n].value)
                ran = [r[0] for r in family.RUNLOG]
                ctx.check_concrete(v == exp and n not in ran, 'values-equal', dict(info, task=n, ran=ran, got=repr(v)[:200],
                                                                                  expected=repr(exp)[:200]))
        finally:
            if not _rp.MODE['replay']:
                shutil.rmtree(d, ignore_errors=True)
    return harness


def snapshot(fs, root):
    """{relative path: 'dir' | file content} below root."""
    if isinstance(fs, hist.RealFS):
        out = {}
        r = fs.path(root)
        for p in sorted(r.rglob('*')):
            out[str(p.relative_to(r))] = 'dir' if p.is_dir() else p.read_bytes()
        return out
    parts = tuple(x for x in root.split('/') if x)
    out = {}
    for k, v in fs.listing(parts).items():
        rel = '/'.join(map(str, k[len(parts):]))
        out[rel] = 'dir' if v == 'dir' else tuple(v)
    return out


def files_only(snap):
    return {k: v for k, v in snap.items() if v != 'dir' and not k.endswith('.log') and not k.endswith('.run_info.yaml')}


def run_case(case, tier):
    ctx = explore.explore(make_harness(case, tier), max_paths=(3000 if tier == 'quick' else 120000), time_budget_s=(400 if tier == 'quick' else 3600))
    return driver.result_from_ctx(ctx)
