"""History harness shared by C01 / C04 / C07 / C18: real chains over the model file system driven by a symbolic
sequence of operations, next to a reference simulation of the documented semantics.

World  = the real side: MFS + Config/Chain objects + the run log written by the generated `run` methods.
Ref    = the reference side: which location holds which computation's value, what each chain object holds in
         memory, which tasks are forced, what the next request must run.
"""
import copy

from sx import instr, mfs, env, replay as _rp
from ref import family, evaluator


class RunFailed(Exception):
    pass


def setup(full=False):
    if _rp.MODE['replay']:
        return
    instr.install(full=full)
    instr.HASH_MODE[0] = 'auto'


class RealFS:
    def __init__(self, root):
        import pathlib
        self.root = pathlib.Path(root)
        self.writes = 0

    def path(self, s='/'):
        return self.root / s.lstrip('/')


class World:
    """One data directory, several configs (same pipeline, different parameter values), chains built on demand."""

    def __init__(self, spec, configs, namespace=None, real_root=None):
        self.spec = spec
        self.configs = configs            # list of value dicts
        self.namespace = namespace
        if _rp.MODE['replay']:
            import tempfile
            self.fs = RealFS(real_root or tempfile.mkdtemp(dir=_rp.MODE['tmp']))
            self.fs.path('/data').mkdir(parents=True, exist_ok=True)
        else:
            self.fs = mfs.FS()
            self.fs.path('/data').mkdir(parents=True)
            env.bind(self.fs)
        self.classes = family.make_pipeline(spec)
        del family.RUNLOG[:]
        family.FAIL.clear()
        self.chains = []                  # (config index, chain, registry id)
        self.registries = {}

    def build(self, ci, registry=None):
        from taskchain import Config, Chain
        data = copy.deepcopy(self.configs[ci])
        data['tasks'] = list(self.classes.values())
        cfg = Config(self.fs.path('/data'), name=f'cfg{ci}', namespace=self.namespace, data=data)
        reg = self.registries.setdefault(registry, {}) if registry is not None else None
        ch = Chain(cfg, shared_tasks=reg)
        self.chains.append((ci, ch, registry))
        return len(self.chains) - 1

    def chain(self, k):
        return self.chains[k][1]

    def task(self, k, name):
        return self.chain(k).tasks[name]

    def runs_since(self, mark):
        return list(family.RUNLOG[mark:])

    def mark(self):
        return len(family.RUNLOG)

    def request(self, k, name):
        """Returns ('ok', value) or ('exc', exception)."""
        try:
            return ('ok', self.task(k, name).value)
        except RunFailed as e:
            return ('exc', e)
        except Exception as e:      # anything else the library raises is an outcome the checks compare, not a crash
            return ('error', f'{type(e).__name__}: {e}'[:200])

    def drop_chains(self):
        """Interpreter restart: every Python object except the data directory goes away."""
        self.chains = []
        self.registries = {}
        import logging
        # loggers are process-global: a restart also forgets their handlers
        for name, lg in list(logging.Logger.manager.loggerDict.items()):
            if name.startswith('task_') and isinstance(lg, logging.Logger):
                for h in list(lg.handlers):
                    lg.removeHandler(h)

    def result_files(self):
        """{relative path of every file/dir below /data: kind}, for store comparisons."""
        if isinstance(self.fs, RealFS):
            out = {}
            root = self.fs.path('/data')
            for p in sorted(root.rglob('*')):
                out[str(p.relative_to(root))] = 'dir' if p.is_dir() else 'file'
            return out
        return {'/'.join(map(str, k[1:])): ('dir' if v == 'dir' else 'file') for k, v in self.fs.listing(('data',)).items()}


class Ref:
    """Reference semantics of requests, forcing and failures over one store."""

    def __init__(self, spec, configs, namespace=None):
        self.spec = spec
        self.evs = [evaluator.evaluate(spec, c, namespace=namespace) for c in configs]
        self.stored = {}        # location -> (value, producing run id)
        self.mem = {}           # task object id (registry, name, key) or (chain k, name) -> value
        self.forced = set()     # task object ids
        self.runs = 0
        self.run_count = {}     # location or object id -> number of runs
        self.chains = []        # (config index, registry)

    def build(self, ci, registry=None):
        self.chains.append((ci, registry))
        return len(self.chains) - 1

    def ev(self, k):
        return self.evs[self.chains[k][0]]

    def obj(self, k, name):
        ci, reg = self.chains[k]
        info = self.evs[ci][name]
        if reg is not None:
            return ('reg', reg, info['slug'], info['key'])
        return ('chain', k, name)

    def loc(self, k, name):
        info = self.ev(k)[name]
        return (info['slug'], info['key'])

    def persists(self, k, name):
        return self.ev(k)[name]['data'] not in ('mem', 'memlen')

    def drop_chains(self):
        self.chains = []
        self.mem = {}
        self.forced = set()

    def inputs(self, k, name):
        info = self.ev(k)[name]
        ins = [t for t in info['inputs'].values() if not isinstance(t, tuple)]
        if info['spec'].get('access') == 'lazy' and not info['param_values'].get('use_all'):
            return ins[:1]          # a run that does not read an input does not request it
        return ins

    def request(self, k, name, fail=None):
        """Expected effect of requesting `name` through chain k.  fail: slug whose run raises (once).
        Returns (runs list of names, outcome 'ok'|'exc', value)."""
        runs = []
        failed = [False]
        stack = []
        self.last_attempted = []      # tasks whose computation had started when the failure struck (call stack)

        def need(n):
            o = self.obj(k, n)
            if o in self.mem:
                return self.mem[o]
            info = self.ev(k)[n]
            loc = self.loc(k, n)
            if self.persists(k, n) and loc in self.stored and o not in self.forced:
                self.mem[o] = self.stored[loc][0]
                return self.mem[o]
            # compute: inputs first (in declaration order), then run
            stack.append(n)
            for i in self.inputs(k, n):
                need(i)
                if failed[0]:
                    return None
            runs.append(n)
            self.runs += 1
            cnt_key = loc if self.persists(k, n) else o
            self.run_count[cnt_key] = self.run_count.get(cnt_key, 0) + 1
            if fail is not None and info['slug'] == fail and not failed[0]:
                failed[0] = True
                self.last_attempted = list(stack)
                return None
            stack.pop()
            if self.persists(k, n):
                self.stored[loc] = (info['value'], self.run_count[cnt_key])
            self.mem[o] = info['value']
            return info['value']
        v = need(name)
        return runs, ('exc' if failed[0] else 'ok'), v

    def force(self, k, names, delete_data=False):
        """chain.force(names): marks the named tasks and everything downstream."""
        ev = self.ev(k)
        marked = set()
        for n in names:
            marked.add(n)
            marked |= evaluator.closure(ev, n, 'down')
        for n in marked:
            o = self.obj(k, n)
            self.forced.add(o)
            self.mem.pop(o, None)
            if delete_data and self.persists(k, n):
                self.stored.pop(self.loc(k, n), None)
        return marked

    def has_data(self, k, name):
        return self.persists(k, name) and self.loc(k, name) in self.stored


def dag_cases(n, data_kinds=('json',)):
    """(edges, spec) for every DAG on n tasks; task j persists as data_kinds[j % len]."""
    out = []
    for edges, spec in family.dag_specs(n):
        spec = [dict(t, data=data_kinds[j % len(data_kinds)]) for j, t in enumerate(spec)]
        out.append((edges, spec))
    return out


def prestate(world, ref, ci, subset):
    """Bring the store into the state "exactly the tasks in `subset` (names) have a stored result", every stored result
    being the value of the computation its location names (invariant I): compute everything with a scratch chain,
    then delete the results outside the subset."""
    k = world.build(ci)
    kr = ref.build(ci)
    names = list(world.chain(k).tasks)
    for n in names:
        world.request(k, n)
        ref.request(kr, n)
    for n in names:
        if n not in subset and ref.persists(kr, n):
            t = world.task(k, n)
            d = t._data_without_value
            if d.exists():
                d.delete()
            for p in (d.run_info_path, d.log_path):
                if p.exists():
                    p.unlink()
            ref.stored.pop(ref.loc(kr, n), None)
    world.drop_chains()
    ref.drop_chains()
    ref.run_count = {}
    ref.runs = 0
    ref.stored = {loc: (v[0], None) for loc, v in ref.stored.items()}
    del family.RUNLOG[:]
    if not isinstance(world.fs, RealFS):
        world.fs.writes = 0
        world.fs.ticks = 0
        world.fs.log = []
