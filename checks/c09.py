"""C09 — configs compose by declared precedence, without leaking or silent override.

Real code executed: Config.__init__/_prepare/_get_part/_update_uses/apply_context, Context.prepare_context /
merge_contexts / _prepare, Chain._process_config / _create_tasks, Parameter.set_value (config files are real temporary
JSON / YAML files; result directory is the model file system).
Symbolic: EVERY source of a parameter value is its own symbolic variable (declaring config, sibling config, global
context entry, per-namespace context entries, each of up to three merged contexts, a context pulled in by `uses`,
the declared default is concrete); which sources are present is a symbolic choice.  Per task and parameter the solver
is asked whether the value the task sees can differ from the term of the source the precedence rule selects.
"""
import json
import os
import shutil
import tempfile

import z3

from sx import explore, driver, instr, replay as _rp
from sx.sym import Sym, to_bool_term
from checks import keylib
from checks.c01 import value_eq
from ref import family
from ref.family import P, par, inp

PROPERTY = 'C09'
FUNCTIONS = ['taskchain.config', 'taskchain.chain.Chain._process_config', 'taskchain.chain.Chain._create_tasks',
             'taskchain.parameter.Parameter']
EXPLANATION = ('Symbolic execution of the real Config / Context / Chain construction with one SMT variable per value '
               'source; presence of sources, file formats and context forms are symbolic choices. Per parameter the '
               'query "value seen != term selected by the documented precedence" is decided by cvc5/z3 (unsat = the '
               'precedence holds for all values). Construction errors (missing value, wrong type, conflicting '
               'declarations), #part resolution and absence of shared mutable values are checked on every path.')
ASSUMPTIONS = ['namespace names are concrete (they are mapping keys)', 'config files are real temporary files (loading '
               'itself is not under test)', 'symbolic strings contain no braces when global_vars are in force']
OUTSIDE = ['trees deeper than 3', 'more than three merged contexts']
REACH = ['value=selected-source', 'missing-or-mistyped-raises', 'parts', 'no-shared-mutables', 'conflict-raises',
         'context-not-mutated']

TSPEC = [P('Work', params=[par('p'), par('d', default='dflt'), par('n', nic='n_conf', default=0), par('t', dtype=int, default=1)])]


def bounds(tier):
    return {'tree': 'main -> (A as a -> (C as c), B as b), depth 3', 'contexts': '<= 3 merged, dict / file / list / uses',
            'entry_kinds_varied': 'all in the first context, two in later ones' if tier == 'quick' else 'all in the first two contexts, two in the third',
            'parameters': ['plain', 'default', 'name_in_config', 'dtype'], 'values': 'symbolic ints / strings'}


def cases(tier):
    out = [('precedence', form) for form in ('dict', 'file-json', 'file-yaml', 'uses')]
    out += [('precedence', ('list', n, hd)) for n in (1, 2, 3) for hd in (0, 1)]     # partitioned over workers
    out += [('samefile', 0), ('missing', 0), ('parts', 'json'), ('parts', 'yaml'), ('sharing', 0), ('conflict', 0), ('reuse', 0)]
    return out


TIER = ['quick']


def make_harness(case, tier):
    kind, arg = case
    TIER[0] = tier or 'quick'
    keylib.setup(full=True, hash_mode='auto')
    return {'precedence': precedence, 'samefile': samefile, 'missing': missing, 'parts': parts, 'sharing': sharing, 'conflict': conflict,
            'reuse': reuse}[kind](arg)


def tmpdir():
    return tempfile.mkdtemp(dir=_rp.MODE['tmp']) if _rp.MODE['replay'] else tempfile.mkdtemp(prefix='c09cfg')


def cleanup(d):
    if not _rp.MODE['replay']:
        shutil.rmtree(d, ignore_errors=True)


def precedence(form):
    part = None
    if isinstance(form, tuple):
        form, *part = form

    def harness(ctx):
        from taskchain import Config
        fs = keylib.fresh_fs()
        base = fs.path('/data')
        d = tmpdir()
        try:
            V = lambda n: ctx.sym_int(n)      # noqa
            namespaces = {'A': 'a', 'C': 'a::c', 'B': 'b'}
            cls = {k: family.make_pipeline(TSPEC)['Work'] for k in namespaces}
            own = {k: {'p': V(f'cfg_{k}_p'), 'n_conf': V(f'cfg_{k}_n')} for k in namespaces}
            if (part[1] if part else ctx.flag('A_has_d')):
                own['A']['d'] = V('cfg_A_d')
            own['C']['d'] = V('cfg_C_d')
            # ---- contexts: up to three, each with optional global and per-namespace entries for p / d
            nctx = (part[0] if part else 1 + ctx.choice('nctx', 3)) if form in ('list',) else (2 if form == 'uses' else 1)
            ctxs = []
            for i in range(nctx):
                c = {}
                # (the first context varies every kind of entry, later ones the two that interact with it)
                if ctx.flag(f'ctx{i}_global_p'):
                    c['p'] = V(f'ctx{i}_p')
                if (i == 0 or (TIER[0] == 'thorough' and i == 1)) and ctx.flag(f'ctx{i}_global_d'):
                    c['d'] = V(f'ctx{i}_d')
                fn = {}
                for k, ns in namespaces.items():
                    if (i == 0 or k == 'C' or (TIER[0] == 'thorough' and i == 1)) and ctx.flag(f'ctx{i}_ns_{k}'):
                        fn[ns] = {'p': V(f'ctx{i}_{k}_p')}
                if fn or (i == 0 and ctx.flag(f'ctx{i}_emptyfn')):
                    c['for_namespaces'] = fn
                ctxs.append(c)
            symbolic_ctx = any(isinstance(v, Sym) for c in ctxs for v in list(c.values()))
            if form.startswith('file') or form == 'uses':
                # contexts from files hold concrete values: give every variable a concrete stand-in on this path
                conc = {}

                def fix(v):
                    if isinstance(v, Sym):
                        name = str(v.t)
                        conc.setdefault(name, 1000 + len(conc))
                        ctx.assume(v == conc[name])
                        return conc[name]
                    return v
                ctxs = [{k: ({ns: {kk: fix(vv) for kk, vv in e.items()} for ns, e in v.items()} if k == 'for_namespaces' else fix(v))
                         for k, v in c.items()} for c in ctxs]
            if form == 'dict':
                context = ctxs[0]
            elif form == 'list':
                context = ctxs
            elif form in ('file-json', 'file-yaml'):
                ext = form.split('-')[1]
                path = os.path.join(d, f'ctx.{ext}')
                with open(path, 'w') as f:
                    if ext == 'json':
                        json.dump(ctxs[0], f)
                    else:
                        import yaml
                        yaml.safe_dump(ctxs[0], f)
                context = path
            else:
                # a context file that pulls in another one through `uses` (the used one has LOWER priority)
                p1, p2 = os.path.join(d, 'outer.json'), os.path.join(d, 'inner.json')
                with open(p2, 'w') as f:
                    json.dump(ctxs[1], f)
                with open(p1, 'w') as f:
                    json.dump(dict(ctxs[0], uses=[p2]), f)
                context = p1
                ctxs = [ctxs[0], ctxs[1]]
                # Context.prepare_context merges [context, used...]: later (used) contexts win
            cC = Config(base, name='C', namespace='c', data=dict(own['C'], tasks=[cls['C']]))
            cA = Config(base, name='A', namespace='a', data=dict(own['A'], tasks=[cls['A']], uses=[cC]))
            cB = Config(base, name='B', namespace='b', data=dict(own['B'], tasks=[cls['B']]))
            main = Config(base, name='main', data={'uses': [cA, cB]}, context=context)
            ch = keylib.chain(main)
            info = {'context_form': form, 'contexts': len(ctxs)}
            ctx.check_concrete(set(ch.tasks) == {'a::work', 'a::c::work', 'b::work'}, 'mounting', dict(info, tasks=sorted(ch.tasks)))
            for k, ns in namespaces.items():
                t = ch.tasks[f'{ns}::work']
                for pname, cname, default in (('p', 'p', None), ('d', 'd', 'dflt'), ('n', 'n_conf', 0)):
                    exp = own[k].get(cname, default)
                    for c in ctxs:                      # global entries, later contexts over earlier ones
                        if cname in c:
                            exp = c[cname]
                    for c in ctxs:                      # entries for the exact namespace win over global ones
                        e = c.get('for_namespaces', {}).get(ns, {})
                        if cname in e:
                            exp = e[cname]
                    got = t.params[pname]
                    ctx.check(value_eq(got, exp), 'value=selected-source', dict(info, task=f'{ns}::work', param=pname))
    # values of one config never reach tasks declared by another: covered by the own[...] terms being distinct variables
        finally:
            cleanup(d)
    return harness


def samefile(_):
    """one config file mounted under two namespaces: each mounting sees its own namespace's context entries"""
    def harness(ctx):
        from taskchain import Config
        fs = keylib.fresh_fs()
        d = tmpdir()
        try:
            import ref.family_gen as FG
            cl = family.make_pipeline(TSPEC)
            FG.Work = cl['Work']
            ext = ['json', 'yaml'][ctx.choice('format', 2)]
            pth = os.path.join(d, f'p.{ext}')
            with open(pth, 'w') as f:
                if ext == 'json':
                    json.dump({'tasks': ['ref.family_gen.Work'], 'n_conf': 3}, f)
                else:
                    import yaml
                    yaml.safe_dump({'tasks': ['ref.family_gen.Work'], 'n_conf': 3}, f)
            mp = os.path.join(d, 'm.json')
            with open(mp, 'w') as f:
                json.dump({'uses': [f'{pth} as n1', f'{pth} as n2']}, f)
            v1, v2, g = ctx.sym_int('v1'), ctx.sym_int('v2'), ctx.sym_int('g')
            context = {'d': g, 'for_namespaces': {'n1': {'p': v1}, 'n2': {'p': v2}}}
            ch = keylib.chain(Config(fs.path('/data'), mp, context=context))
            info = {'mounting': 'p as n1, p as n2', 'format': ext}
            for ns, v in (('n1', v1), ('n2', v2)):
                t = ch.tasks[f'{ns}::work']
                ctx.check(value_eq(t.params['p'], v), 'value=selected-source', dict(info, task=f'{ns}::work', param='p'))
                ctx.check(value_eq(t.params['d'], g), 'value=selected-source', dict(info, task=f'{ns}::work', param='d'))
        finally:
            cleanup(d)
    return harness


def missing(_):
    def harness(ctx):
        from taskchain import Config
        fs = keylib.fresh_fs()
        base = fs.path('/data')
        which = ctx.choice('which', 5)
        cl = family.make_pipeline(TSPEC)
        v = ctx.sym_int('v')
        s = ctx.sym_str('s')
        info = {'case': ['value only in a sibling config', 'value only in a context entry for another namespace',
                         'string where dtype=int is declared', 'value only in the parent config',
                         'default of the wrong type in effect'][which]}
        try:
            if which == 0:
                other = Config(base, name='o', namespace='o', data={'p': v, 'n_conf': 1, 'tasks': []})
                mine = Config(base, name='m', namespace='m', data={'tasks': [cl['Work']]})
                keylib.chain(Config(base, name='main', data={'uses': [other, mine]}))
            elif which == 1:
                mine = Config(base, name='m', namespace='m', data={'tasks': [cl['Work']]})
                keylib.chain(Config(base, name='main', data={'uses': [mine]}, context={'for_namespaces': {'zz': {'p': v}}}))
            elif which == 2:
                keylib.chain(Config(base, name='m', data={'tasks': [cl['Work']], 'p': v, 't': s}))
            elif which == 4:
                bad = family.make_pipeline([P('Work', params=[par('p'), par('shape', dtype=list, default=(64, 64))])])
                keylib.chain(Config(base, name='m', data={'tasks': [bad['Work']], 'p': v}))
            else:
                mine = Config(base, name='m', namespace='m', data={'tasks': [cl['Work']]})
                keylib.chain(Config(base, name='main', data={'uses': [mine], 'p': v}))
            raised = None
        except ValueError as e:
            raised = 'ValueError'
        ctx.check_concrete(raised is not None, 'missing-or-mistyped-raises', dict(info, raised=raised))
    return harness


def parts(ext):
    def harness(ctx):
        from taskchain import Config
        fs = keylib.fresh_fs()
        d = tmpdir()
        try:
            import ref.family_gen as FG
            cl = family.make_pipeline(TSPEC)
            FG.Work = cl['Work']
            data = {'configs': {
                'leaf': {'tasks': ['ref.family_gen.Work'], 'p': 11, 'n_conf': 12, 'd': 1e-05},
                'mid': {'uses': ['#leaf as l'], 'p': 21},
                'top': {'main_part': True, 'uses': '#mid as m', 'p': 31},
                'other': {'tasks': ['ref.family_gen.Work'], 'p': 41, 'n_conf': 42},
            }}
            path = os.path.join(d, f'multi.{ext}')
            with open(path, 'w') as f:
                if ext == 'json':
                    json.dump(data, f)
                else:
                    import yaml
                    yaml.safe_dump(data, f)
            which = ctx.choice('entry', 3)
            if which == 0:
                ch = keylib.chain(Config(fs.path('/data'), path), shared={})
                want = {'m::l::work': 11}
            elif which == 1:
                ch = keylib.chain(Config(fs.path('/data'), path + '#other'), shared={})
                want = {'work': 41}
            else:
                ch = keylib.chain(Config(fs.path('/data'), path, part='mid'), shared={})
                want = {'l::work': 11}
            got = {n: t.params['p'] for n, t in ch.tasks.items()}
            ctx.check_concrete(got == want, 'parts', {'format': ext, 'entry': ['main_part', '#other', 'part=mid'][which], 'got': got})
            if which != 1:
                d = list(ch.tasks.values())[0].params['d']
                ctx.check_concrete(type(d) is float and d == 1e-05, 'parts', {'format': ext, 'what': 'a float written as 1e-05 in the file',
                                                                               'got': repr(d)})
        finally:
            cleanup(d)
    return harness


def sharing(_):
    def harness(ctx):
        from taskchain import Config
        fs = keylib.fresh_fs()
        base = fs.path('/data')
        spec = [P('Work', params=[par('lst'), par('mp', default=None), par('who')])]
        shared_list = [1, [2, 3]]
        shared_map = {'k': [4]}
        cdata = {'lst': shared_list, 'for_namespaces': {'x': {'mp': shared_map}, 'y': {'mp': shared_map}}}
        form = ctx.choice('form', 2)
        context = cdata if form == 0 else [cdata, {'other': 1}]
        cls = family.make_pipeline(spec)
        # (different `who`: otherwise the two tasks are one shared computation and legitimately one object)
        cx = Config(base, name='X', namespace='x', data={'tasks': [cls['Work']], 'who': 'x'})
        cy = Config(base, name='Y', namespace='y', data={'tasks': [cls['Work']], 'who': 'y'})
        main = Config(base, name='main', data={'uses': [cx, cy]}, context=context)
        ch = keylib.chain(main, shared={})
        tx, ty = ch.tasks['x::work'], ch.tasks['y::work']
        info = {'context_form': ['dict', 'list'][form]}
        objs = [('x.lst', tx.params['lst']), ('y.lst', ty.params['lst']), ('x.mp', tx.params['mp']), ('y.mp', ty.params['mp'])]
        bad = []
        for i, (n1, o1) in enumerate(objs):
            if o1 is shared_list or o1 is shared_map:
                bad.append(f'{n1} is the context\'s own object')
            for n2, o2 in objs[i + 1:]:
                if o1 is o2 and isinstance(o1, (list, dict)):
                    bad.append(f'{n1} is {n2}')
        ctx.check_concrete(not bad, 'no-shared-mutables', dict(info, shared=bad))
        # mutating a value taken from one of them is not visible through the others
        tx.params['lst'][1].append(99)
        tx.params['mp']['k'].append(98)
        ok = ty.params['lst'] == [1, [2, 3]] and ty.params['mp'] == {'k': [4]} and shared_list == [1, [2, 3]] and shared_map == {'k': [4]}
        ctx.check_concrete(ok, 'no-shared-mutables', dict(info, after_mutation={'y.lst': ty.params['lst'], 'y.mp': ty.params['mp'],
                                                                            'context.lst': shared_list, 'context.mp': shared_map}))
    return harness


def conflict(_):
    def harness(ctx):
        from taskchain import Config
        fs = keylib.fresh_fs()
        base = fs.path('/data')
        d = tmpdir()
        try:
            import ref.family_gen as FG
            cl = family.make_pipeline(TSPEC)
            FG.Work = cl['Work']
            kind = ctx.choice('kind', 3)
            rev = ctx.flag('reversed')
            ns = [None, 'same'][ctx.choice('ns', 2)]
            if kind == 0:
                c1 = Config(base, name='c1', namespace=ns, data={'tasks': [cl['Work']], 'p': 1})
                c2 = Config(base, name='c2', namespace=ns, data={'tasks': [cl['Work']], 'p': 2})
                uses = [c2, c1] if rev else [c1, c2]
            else:
                os.makedirs(os.path.join(d, 'experiment'))
                os.makedirs(os.path.join(d, 'baseline'))
                e1 = os.path.join(d, 'experiment', 'model.json')
                e2 = os.path.join(d, 'baseline', 'model.yaml' if kind == 2 else 'model.json')
                with open(e1, 'w') as f:
                    json.dump({'tasks': ['ref.family_gen.Work'], 'p': 1}, f)
                with open(e2, 'w') as f:
                    if kind == 2:
                        import yaml
                        yaml.safe_dump({'tasks': ['ref.family_gen.Work'], 'p': 2}, f)
                    else:
                        json.dump({'tasks': ['ref.family_gen.Work'], 'p': 2}, f)
                suffix = f' as {ns}' if ns else ''
                uses = [e1 + suffix, e2 + suffix]
                if rev:
                    uses.reverse()
            info = {'kind': ['two dict configs', 'two files with the same base name', 'json and yaml file with the same base name'][kind],
                    'namespace': ns, 'reversed': rev}
            try:
                ch = keylib.chain(Config(base, name='main', data={'uses': uses}), shared={})
                raised = None
                seen = {n: t.params['p'] for n, t in ch.tasks.items()}
            except ValueError as e:
                raised, seen = 'ValueError', None
            ctx.check_concrete(raised is not None, 'conflict-raises', dict(info, raised=raised, silently_resolved_to=seen))
        finally:
            cleanup(d)
    return harness


def reuse(_):
    def harness(ctx):
        from taskchain import Config
        from taskchain.config import Context
        import copy
        fs = keylib.fresh_fs()
        base = fs.path('/data')
        as_obj = ctx.flag('context_object')
        base_ctx = {'p': 5, 'for_namespaces': {'m': {'d': 'from-base'}}}
        snapshot = copy.deepcopy(base_ctx)
        first = Context.prepare_context(base_ctx) if as_obj else base_ctx
        override = {'for_namespaces': {'m': {'d': 'override', 'p': 6}}}

        def build(context):
            cl = family.make_pipeline(TSPEC)
            mine = Config(base, name='m', namespace='m', data={'tasks': [cl['Work']], 'n_conf': 1})
            return keylib.chain(Config(base, name='main', data={'uses': [mine]}, context=context), shared={})
        order = ctx.choice('order', 2)
        ch1 = build([first, override])
        ch2 = build([first] if order == 0 else first)
        t1, t2 = ch1.tasks['m::work'], ch2.tasks['m::work']
        info = {'context_object': as_obj, 'second_use': ['[base]', 'base'][order]}
        ctx.check_concrete((t1.params['d'], t1.params['p']) == ('override', 6), 'value=selected-source',
                           dict(info, run=1, got=[t1.params['d'], t1.params['p']]))
        ctx.check_concrete((t2.params['d'], t2.params['p']) == ('from-base', 5), 'context-not-mutated',
                           dict(info, run=2, got=[t2.params['d'], t2.params['p']]))
        if not as_obj:
            same = {k: v for k, v in base_ctx.items()} == snapshot
            # (that Config / prepare_context normalise the caller's own dict is not covered by the statement: only
            # values leaking from the override are checked)
            ctx.check_concrete(base_ctx.get('for_namespaces', {}).get('m', {}).get('d') == 'from-base', 'context-not-mutated',
                               dict(info, base_context_after=repr(base_ctx)[:200]))
    return harness


def run_case(case, tier):
    ctx = explore.explore(make_harness(case, tier), max_paths=(20000 if tier == 'quick' else 800000), time_budget_s=(400 if tier == 'quick' else 3600), decide_timeout_ms=20000)
    return driver.result_from_ctx(ctx)
