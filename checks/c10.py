"""C10 — task names resolve uniquely or not at all.

Unit executed: the real taskchain.task._find_task_full_name (and Chain.get / __contains__ / __getattr__ over a
symbolic-key task map; InputTasks.get / __contains__ on one solver witness per path).
Symbolic: every namespace / group / task-name component of 2-3 full names is an identifier-valued string of unbounded
length; the solver decides whether components are equal, prefixes or suffixes of one another.  The query is a shorter
form of one of the names or an unrelated name; `determine_namespace` is a symbolic boolean; list order is part of the
case (all ordered tuples are enumerated, so every permutation is covered).
Oracle: component-wise reference (ref/names.py), as an SMT formula over the components.
"""
import itertools
import z3

from sx import instr, explore, driver
from sx.sym import SymStr, Sym, lift, to_bool_term, SxUnsupported

PROPERTY = 'C10'
FUNCTIONS = ['taskchain.chain.Chain._process_dependencies', 'taskchain.task._find_task_full_name', 'taskchain.chain.Chain.get', 'taskchain.chain.Chain.__contains__',
             'taskchain.chain.Chain.__getattr__', 'taskchain.task.InputTasks']
EXPLANATION = ('Bounded symbolic execution of the real _find_task_full_name / Chain.get / Chain.__contains__ with '
               'identifier-valued name components of unbounded length as SMT string variables; each path ends in the '
               'query "path condition AND result != component-wise reference", decided by cvc5 (z3 cross-check). '
               'unsat = resolution is correct for every value of every component on that path.')
ASSUMPTIONS = ['name components are arbitrary non-empty strings that do not contain ":"',
               'full names in one task map are pairwise distinct',
               'InputTasks (a real dict) is driven with one concrete solver witness per explored path, not symbolically']
OUTSIDE = ['more than 3 (quick) / 4 (thorough) candidate names at once', 'namespace or group depth above 2',
           'names containing characters outside identifiers']
REACH = ['find:result', 'chain.get', 'inputtasks:witness', 'resolved-in-own-namespace']


def bounds(tier):
    return {'names': '2-3' if tier == 'quick' else '2-4', 'namespace_depth': 2, 'group_depth': 2,
            'component_length': 'unbounded', 'orders': 'all (ordered tuples)'}


SHAPES2 = [(n, g) for n in range(3) for g in range(3)]
SHAPES1 = [(n, g) for n in range(2) for g in range(2)]


def cases(tier):
    """(shapes of the full names, query derivation, determine_namespace)"""
    out = []

    def queries(shapes):
        qs = []
        for i, (n, g) in enumerate(shapes):
            for kn in ({0, 1} if n else {0}):
                for kg in ({0, 1} if g else {0}):
                    qs.append(('from', i, kn, kg))
        qs.append(('fresh', 0, 0, 0))
        qs.append(('fresh', 0, 1, 0))
        qs.append(('mix', 0, 0, 0))     # namespace of name 0 with the task part of name 1
        return qs
    pair_shapes = [(n, g) for n in range(3) for g in range(2)] if tier == 'quick' else SHAPES2
    for sh in itertools.product(pair_shapes, repeat=2):
        for q in queries(sh):
            out.append((sh, q, True))
            if tier == 'thorough' or all(s in SHAPES1 for s in sh):
                out.append((sh, q, False))
    if tier == 'quick':
        for sh in [((0, 2), (0, 2)), ((0, 2), (0, 1)), ((1, 2), (1, 2)), ((1, 2), (0, 2)), ((2, 2), (2, 2))]:
            for q in queries(sh):
                out.append((sh, q, True))
    trip = SHAPES1 if tier == 'quick' else [(n, g) for n in range(3) for g in range(2)]
    for sh in itertools.product(trip, repeat=3):
        for q in queries(sh):
            if q[0] == 'mix':
                continue
            out.append((sh, q, True))
    for form in ('name', 'class', 'qualified'):
        for depth in (0, 1, 2):
            out.append(('deps', form, depth))
    for m in ('root', 'train', 'a::b'):
        out.append(('conc', 'shortform', m))
    if tier == 'thorough':
        for sh in itertools.product(SHAPES1, repeat=4):
            for q in queries(sh):
                if q[0] != 'from':
                    continue
                out.append((sh, q, True))
    return out


def build(ns, gr, nm):
    s = nm
    for g in reversed(gr):
        s = g + ':' + s
    if ns:
        p = ns[0]
        for n in ns[1:]:
            p = p + '::' + n
        s = p + '::' + s
    return s


def teq(a, b):
    """z3 equality of two components (python str or SymStr)."""
    return lift(a) == lift(b)


def comps_eq(a, b):
    if len(a) != len(b):
        return z3.BoolVal(False)
    return z3.And([teq(x, y) for x, y in zip(a, b)] + [z3.BoolVal(True)])


def tokens(t):
    ns, gr, nm = t
    out = []
    for n in ns:
        out += [n, '']
    return out + list(gr) + [nm]


def ref_match(q, f, dn):
    qns, qgr, qnm = q
    fns, fgr, fnm = f
    conds = [teq(qnm, fnm)]
    if qns:
        conds.append(comps_eq(qns, fns))
    else:
        # no namespace in the query: any namespace when determine_namespace, else the empty namespace only
        conds.append(z3.Or(dn, z3.BoolVal(len(fns) == 0)))
    if qgr:
        conds.append(comps_eq(qgr, fgr))
    return z3.And(conds)


def ref_less_nested(c, t):
    """c is t or a less nested form of t: same name, namespace and group components of c are suffixes of t's."""
    (cns, cgr, cnm), (tns, tgr, tnm) = c, t

    def suffix(a, b):
        if len(a) > len(b):
            return z3.BoolVal(False)
        return comps_eq(a, b[len(b) - len(a):])
    return z3.And(teq(cnm, tnm), suffix(list(cns), list(tns)), suffix(list(cgr), list(tgr)))


def run_case(case, tier):
    if case[0] == 'deps':
        # a dependant's inputs are resolved through Chain._process_dependencies: same symbolic harness as C08 (a)
        from checks import c08
        ctx = explore.explore(c08.sym(('sym', case[1], case[2])), max_paths=2000, decide_timeout_ms=30000)
        return driver.result_from_ctx(ctx)
    if case[0] == 'conc':
        # whole chains whose dependants name one task by its long and another by the short form (shared with C08 (b))
        from checks import c08
        ctx = explore.explore(c08.conc(case), max_paths=2000, decide_timeout_ms=30000)
        return driver.result_from_ctx(ctx)
    instr.install(full=True)
    import taskchain.task as T
    import taskchain.chain as C
    shapes, q, dn = case
    F = T._find_task_full_name

    def harness(ctx):
        comps = []
        for i, (n, g) in enumerate(shapes):
            ns = [ctx.sym_str(f'n{i}_{k}', exclude=':', nonempty=True) for k in range(n)]
            gr = [ctx.sym_str(f'g{i}_{k}', exclude=':', nonempty=True) for k in range(g)]
            nm = ctx.sym_str(f'm{i}', exclude=':', nonempty=True)
            comps.append((ns, gr, nm))
        fulls = [build(*c) for c in comps]
        for i in range(len(fulls)):
            for j in range(i + 1, len(fulls)):
                ctx.assume(fulls[i] != fulls[j])
        kind, src, kn, kg = q
        if kind == 'from':
            c = comps[src]
            qc = (c[0] if kn else [], c[1] if kg else [], c[2])
        elif kind == 'fresh':
            qc = ([ctx.sym_str('qn', exclude=':', nonempty=True)] if kn else [], [], ctx.sym_str('qm', exclude=':', nonempty=True))
        else:
            qc = (comps[0][0], comps[1][1], comps[1][2])
        qs = build(*qc)
        dnt = z3.BoolVal(dn)
        try:
            r = F(qs, list(fulls), determine_namespace=dn)
            out = ('ret', r)
        except KeyError:
            out = ('err', None)
        m = [ref_match(qc, c, dnt) for c in comps]
        sel = []
        for i in range(len(comps)):
            others = [z3.Implies(m[j], ref_less_nested(comps[i], comps[j])) for j in range(len(comps)) if j != i]
            sel.append(z3.And([m[i]] + others))
        info = {'names': list(fulls), 'query': qs, 'dn': dn, 'got': out[0], 'ret': out[1]}
        if out[0] == 'ret':
            cond = z3.Or([z3.And(to_bool_term(out[1] == fulls[i]), sel[i]) for i in range(len(comps))])
        else:
            cond = z3.Not(z3.Or(sel))
        ctx.check(cond, 'find:result', info)
        ctx.observe('find', list(out))

        # ---- the chain's lookup API over the same names (symbolic-key task map)
        if dn and ctx.concrete is None:
            ch = C.Chain.__new__(C.Chain)
            tasks = instr.SymDict()
            for i, f in enumerate(fulls):
                tasks[f] = ('task', i)
            ch.__dict__['tasks'] = tasks
            try:
                got = ('ret', ch.get(qs))
            except KeyError:
                got = ('err', None)
            if out[0] == 'ret':
                ok = z3.BoolVal(got[0] == 'ret')
                if got[0] == 'ret':
                    ok = z3.Or([z3.And(to_bool_term(out[1] == fulls[i]), z3.BoolVal(got[1] == ('task', i)))
                                for i in range(len(comps))])
                ctx.check(ok, 'chain.get', dict(info, via='Chain.get', chain_got=str(got)))
            else:
                ctx.check(z3.BoolVal(got[0] == 'err'), 'chain.get', dict(info, via='Chain.get', chain_got=str(got)))
            inside = C.Chain.__contains__(ch, qs)
            ctx.check(z3.BoolVal(bool(inside) == (out[0] == 'ret')), 'chain.contains',
                      dict(info, via='Chain.__contains__', chain_got=bool(inside)))

            # ---- InputTasks / real Chain on one concrete witness of this path
            model = ctx.path_model()
            if model is not None and '__z3model__' in model:
                zm = model['__z3model__']
                cf = [explore._concretize(f, zm) for f in fulls]
                cq = explore._concretize(qs, zm)
                if len(set(cf)) == len(cf):
                    from ref import names as RN
                    try:
                        exp = ('ret', RN.resolve(cq, cf, True))
                    except KeyError:
                        exp = ('err', None)
                    it = T.InputTasks()
                    for i, f in enumerate(cf):
                        it[f] = ('task', i)
                    try:
                        g2 = ('ret', it.get(cq))
                    except KeyError:
                        g2 = ('err', None)
                    want = ('ret', ('task', cf.index(exp[1]))) if exp[0] == 'ret' else exp
                    ok = g2 == want and ((cq in it) == (exp[0] == 'ret'))
                    for k in range(len(cf)):
                        ok = ok and it[k] == ('task', k)
                    ctx.check_concrete(ok, 'inputtasks:witness',
                                       {'names': cf, 'query': cq, 'dn': True, 'got': g2[0], 'ret': str(g2[1]),
                                        'via': 'InputTasks'})
                    # an argument of `run` named like the query receives exactly that input (or the lookup fails)
                    import keyword
                    import types
                    if cq.isidentifier() and not keyword.iskeyword(cq):
                        obj = types.SimpleNamespace(run=eval(f'lambda {cq}: None'), input_tasks=it, parameters={})
                        try:
                            g3 = ('ret', T.Task._get_run_arguments(obj)[0])
                        except KeyError:
                            g3 = ('err', None)
                        ctx.check_concrete(g3 == want, 'inputtasks:witness',
                                           {'names': cf, 'query': cq, 'dn': True, 'got': g3[0], 'ret': str(g3[1]),
                                            'via': 'run-argument'})

    ctx = explore.explore(harness, max_paths=4000, concolic=explore.concolic_rerun,
                          decide_timeout_ms=20000 if tier == 'quick' else 60000)
    return driver.result_from_ctx(ctx)


def replay_spec(v):
    i = v['info']
    if 'names' not in i and 'pipeline' in i:
        return {'module_override': 'checks.c08', 'case': v['case'], 'label': v['label'], 'inputs': v.get('model'), 'info': i}
    if 'names' not in i:
        # a counterexample of the dependant-input harness (shared with C08): replayed by the generic mechanism
        import ast
        c = ast.literal_eval(v['case'])
        return {'module_override': 'checks.c08', 'case': repr(('sym', c[1], c[2])), 'label': v['label'],
                'inputs': v.get('model'), 'info': i}
    return {'names': i['names'], 'query': i['query'], 'dn': i['dn'], 'via': i.get('via', 'find')}


def replay_script(spec):
    return r'''
import sys, json, warnings
warnings.filterwarnings('ignore')
spec = json.loads(sys.argv[1])
from taskchain.task import _find_task_full_name, InputTasks
from ref import names as RN
names, q, dn = spec['names'], spec['query'], spec['dn']
try: exp = ('ret', RN.resolve(q, names, dn))
except KeyError as e: exp = ('err', type(e).__name__)
def real(order):
    if spec['via'] == 'InputTasks':
        it = InputTasks()
        for n in order: it[n] = n
        try: return ('ret', it.get(q))
        except KeyError: return ('err', None)
    if spec['via'] == 'run-argument':
        import types
        from taskchain.task import Task
        it = InputTasks()
        for n in order: it[n] = n
        obj = types.SimpleNamespace(run=eval(f'lambda {q}: None'), input_tasks=it, parameters={})
        try: return ('ret', Task._get_run_arguments(obj)[0])
        except KeyError: return ('err', None)
    if spec['via'].startswith('Chain'):
        from taskchain.chain import Chain
        ch = Chain.__new__(Chain); ch.__dict__['tasks'] = {n: n for n in order}
        try:
            r = ch.get(q)
            if (q in ch) is not True: return ('contains-mismatch', r)
            return ('ret', r)
        except KeyError:
            if (q in ch) is not False: return ('contains-mismatch', None)
            return ('err', None)
    try: return ('ret', _find_task_full_name(q, list(order), determine_namespace=dn))
    except KeyError: return ('err', None)
import itertools
bad = []
for order in itertools.permutations(names):
    got = real(order)
    if got[0] != exp[0] or (got[0] == 'ret' and got[1] != exp[1]):
        bad.append((list(order), got))
if bad:
    print('names', names, 'query', repr(q), 'determine_namespace', dn)
    print('reference:', exp)
    for o, g in bad[:3]: print('  order', o, '->', g)
    sys.exit(3)
print('reference and implementation agree:', exp)
'''
