#!/bin/bash
# usage: tools/mutrun.sh <patch.diff> <check id>... ; applies the patch to /repo, runs the checks (quick), always reverts
patch="$1"; shift
cd /verif
git -C /repo apply "$patch" || { echo "patch does not apply"; exit 9; }
trap 'git -C /repo checkout -- src' EXIT
for c in "$@"; do
  out=$(timeout ${MUT_TIMEOUT:-600} ./vcheck $c 2>&1); code=$?
  echo "== $c exit=$code $(echo "$out" | grep -c VIOLATION) violation line(s)"
  echo "$out" | grep -E "violated|INCONCLUSIVE|KNOWN" | head -${MUT_LINES:-3}
done
