#!/bin/bash
# usage: tools/seed_ported.sh <dir with <id>/patch.diff> <id>...   re-made edits of seeded changes whose patch no longer
# applies after a fix: commit; demo.py and the description are taken from seeded/<id>/; recorded as seeded/<id>-ported/
cd /verif
SRC=$1; shift
H=$(git -C /repo rev-parse --short HEAD)
run_suite() { (cd /repo && /venv/bin/python -m pytest -q -p no:cacheprovider -x 2>&1 | tail -1); }
for id0 in "$@"; do
  prop=${id0:0:3}; id="$id0-ported"; out=seeded/$id; demo=seeded/$id0/demo.py; metasrc=seeded/$id0/meta.json
  git -C /repo apply --check $SRC/$id0/patch.diff || { echo "$id: does not apply"; continue; }
  mkdir -p $out
  git -C /repo apply $SRC/$id0/patch.diff
  suite=$(run_suite)
  (cd /tmp && PYTHONPATH=/repo/src timeout 300 /venv/bin/python /verif/$demo >/dev/null 2>&1); d_with=$?
  res=$(SX_OUT_DIR=/tmp/sxout/seed timeout 1200 ./vcheck $prop 2>&1); code=$?
  labels=$(echo "$res" | grep "violated:" | sort | uniq -c | tr '\n' ';')
  git -C /repo checkout -- src
  (cd /tmp && PYTHONPATH=/repo/src timeout 300 /venv/bin/python /verif/$demo >/dev/null 2>&1); d_without=$?
  cp $SRC/$id0/patch.diff $out/patch.diff; cp $demo $out/demo.py
  python3 - "$id" "$prop" "$metasrc" "$suite" "$d_with" "$d_without" "$code" "$labels" "$H" "$id0" > $out/meta.json <<'PY'
import json,sys
id_,prop,src,suite,dw,dwo,code,labels,head,id0=sys.argv[1:]
m=json.load(open(src))
print(json.dumps({'id':id_,'property':prop,'summary':m.get('summary'),'needs_to_manifest':m.get('needs_to_manifest'),
 'files_touched':m.get('files_touched'),
 'origin':f'the edit of {id0} (independent sub-agent) re-made by hand on the code as rewritten by a fix: commit; same demonstration',
 'confirmed_on_repo_head':head,
 'what_i_ran':{'git -C /repo apply patch.diff':'ok','suite with patch':suite.strip(),'demo.py with patch (exit code)':int(dw),
               'demo.py without patch (exit code)':int(dwo),f'./vcheck {prop} (quick) with patch: exit code':int(code),
               'violated labels':labels},
 'detected_by_own_check': int(code)==1},indent=1))
PY
  echo "$id: suite=[$suite] demo_with=$d_with demo_without=$d_without check_exit=$code $labels"
done
git -C /repo status --short
