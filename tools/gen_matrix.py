#!/usr/bin/env python3
"""Fill the detection matrix of DESIGN.md (between the MATRIX markers) from /verif/seeded/*/meta.json."""
import glob, json, os, re
ROOT = os.path.dirname(os.path.dirname(os.path.abspath(__file__)))
rows = []
for f in sorted(glob.glob(os.path.join(ROOT, 'seeded', '*', 'meta.json'))):
    m = json.load(open(f))
    w = m['what_i_ran']
    own = [k for k in w if k.startswith('./vcheck')][0]
    labels = re.sub(r'\s+', ' ', w.get('violated labels', '')).replace('violated: ', '').strip(' ;')
    others = m.get('also_detected_by', [])
    det = ('own check: exit %d' % w[own]) + (f' ({labels})' if labels else '')
    if m.get('note') and w[own] != 1:
        det += ' -- ' + m['note']
    elif m.get('note'):
        det += ' -- ' + m['note']
    for oc, hit in (m.get('detected_by_other_check') or {}).items():
        det += f'; {oc} check: exit {1 if hit else 0}'
    if others:
        det += '; also ' + ', '.join(others)
    rows.append((m['id'], (m.get('summary') or '')[:150].replace('|', '/').replace('\n', ' '), det))
lines = ['| seeded change | what it does (agent\'s summary, shortened) | outcome with the change applied to /repo |', '|---|---|---|']
lines += [f'| {a} | {b} | {c} |' for a, b, c in rows]
rev = sorted(glob.glob(os.path.join(ROOT, 'seeded', 'reverts', '*.diff')))
txt = '\n'.join(lines) + f'\n\nPre-fix states (`seeded/reverts/`, {len(rev)} patches): each was applied to /repo and the check of the ' \
    'property it belongs to reported the violation again (C10 8e05929; C08 f8b714a; C09 59d172d, 65528cd (also C01); ' \
    'C11 f79c4bf, e3fe969; C18 7539ddc; C05 8ca7d28, 2fa358f; C10 f3b2310; C15 d365a5e, with a real-thread demonstration `d365a5e.demo.py`).\n'
p = os.path.join(ROOT, 'DESIGN.md')
s = open(p).read()
if '<!-- MATRIX -->' in s:
    s = s.replace('<!-- MATRIX -->', '<!-- MATRIX-BEGIN -->\n' + txt + '<!-- MATRIX-END -->')
else:
    s = re.sub(r'<!-- MATRIX-BEGIN -->.*?<!-- MATRIX-END -->', lambda m: '<!-- MATRIX-BEGIN -->\n' + txt + '<!-- MATRIX-END -->', s, flags=re.S)
open(p, 'w').write(s)
print(len(rows), 'rows')
