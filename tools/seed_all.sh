#!/bin/bash
# Confirms every candidate change and records it under /verif/seeded/<id>/ : the patch applies to /repo HEAD, the
# unedited suite passes with it, the demonstration fails with it and passes without it; then runs the property's own
# check (quick) against /repo with the patch applied and records the outcome.  /repo is restored after every step.
cd /verif
H=$(git -C /repo rev-parse --short HEAD)
run_suite() { (cd /repo && /venv/bin/python -m pytest -q -p no:cacheprovider -x 2>&1 | tail -1); }
for dir in /tmp/mut/out/C*/A /tmp/mut/out/C*/B /tmp/mut/ported/*; do
  [ -f $dir/patch.diff ] || continue
  if [ -n "${ONLY:-}" ] && ! echo " $ONLY " | grep -q " $(basename $(dirname $dir))/$(basename $dir) "; then continue; fi
  prop=$(basename $(dirname $dir)); var=$(basename $dir)
  if [[ $dir == /tmp/mut/ported/* ]]; then prop=${var:0:3}; var="${var:3}-ported"; demo=/tmp/mut/out/$prop/${var%-ported}/demo.py; metasrc=/tmp/mut/out/$prop/${var%-ported}/meta.json; else demo=$dir/demo.py; metasrc=$dir/meta.json; fi
  id="$prop-$var"; out=seeded/$id; mkdir -p $out
  if ! git -C /repo apply --check $dir/patch.diff 2>/dev/null; then
    echo "$id: patch does not apply to $H (site rewritten by a fix) -> skipped"; rm -rf $out; continue
  fi
  git -C /repo apply $dir/patch.diff
  suite=$(run_suite)
  (cd /tmp && PYTHONPATH=/repo/src timeout 300 /venv/bin/python $demo >/dev/null 2>&1); d_with=$?
  res=$(timeout 900 ./vcheck $prop 2>&1); code=$?
  labels=$(echo "$res" | grep "violated:" | sort | uniq -c | tr '\n' ';')
  git -C /repo checkout -- src
  (cd /tmp && PYTHONPATH=/repo/src timeout 300 /venv/bin/python $demo >/dev/null 2>&1); d_without=$?
  cp $dir/patch.diff $out/patch.diff; cp $demo $out/demo.py
  python3 - "$id" "$prop" "$metasrc" "$suite" "$d_with" "$d_without" "$code" "$labels" "$H" > $out/meta.json <<'PY'
import json,sys
id_,prop,src,suite,dw,dwo,code,labels,head=sys.argv[1:]
m=json.load(open(src))
print(json.dumps({'id':id_,'property':prop,'summary':m.get('summary'),'needs_to_manifest':m.get('needs_to_manifest'),
 'files_touched':m.get('files_touched'),'origin':'independent sub-agent given only the property text and a scratch worktree',
 'confirmed_on_repo_head':head,
 'what_i_ran':{'git -C /repo apply patch.diff':'ok','suite with patch':suite.strip(),'demo.py with patch (exit code)':int(dw),
               'demo.py without patch (exit code)':int(dwo),f'./vcheck {prop} (quick) with patch: exit code':int(code),
               'violated labels':labels},
 'detected_by_own_check': int(code)==1},indent=1))
PY
  echo "$id: suite=[$suite] demo_with=$d_with demo_without=$d_without check_exit=$code $labels"
done
git -C /repo status --short
