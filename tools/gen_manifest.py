#!/usr/bin/env python3
"""Regenerate /verif/MANIFEST.json from the table below (keeps it valid against the schema at all times)."""
import json, os, sys
ROOT = os.path.dirname(os.path.dirname(os.path.abspath(__file__)))
BASE_CMD = ("cd /repo && /venv/bin/python -m pytest -ra -q -p no:cacheprovider --timeout=900 "
            "--continue-on-collection-errors")
LEVEL_NOTE = ("Trusted base: cvc5 1.4.0 and z3 5.1 (answers cross-checked where z3 answers within 2 s); the AST "
              "instrumentation and the symbolic proxies of sx/ (validated by running the repository's suite under the "
              "hook and by per-path concolic re-runs); the environment models listed in the evidence file; the "
              "reference model in ref/. SHA-256 truncated to 128 bits is assumed collision-free (uninterpreted "
              "injective function). Counterexamples are replayed on the uninstrumented library before being reported.")
CHECKS = {
    # id: (technique, level text, design ref)
    'C10': ('bounded symbolic execution of _find_task_full_name / Chain.get with SMT string components (cvc5+z3)',
            'For every value (unbounded length) of every namespace/group/name component of 2-3 (thorough 2-4) full '
            'names, every shorter query form and every list order, the real resolution function returns what the '
            'component-wise reference returns; each explored path ends in an unsat verdict. Bounded by the number of '
            'names and the nesting depth (2).', '7/C10'),
    'C12': ('bounded symbolic execution of chain construction; key terms over an uninterpreted injective hash compared by cvc5/z3 with a frozen re-implementation of the 1.4.0 scheme',
            'For every value of every persisted parameter (strings and integers unbounded, containers to depth 2/3, '
            'parameter objects, placeholder values) of six family pipelines at namespace depth 0-2, the key the real '
            'code derives equals the key of the frozen 1.4.0 scheme and the data / run-info / log paths have the '
            'documented layout (unsat per path); name mode and a boundary pool of concrete values (floats, unicode, '
            'quotes, backslashes) through the real hashlib are enumerated by symbolic choice.', '7/C12'),
    'C03': ('bounded symbolic execution of chain construction for two configurations; query "values differ AND keys equal" decided by cvc5/z3',
            'For all pairs of value trees of depth <= 2 and width <= 2 (thorough: depth 3) with symbolic leaves and '
            'mapping keys, for parameter-object arguments, multi-parameter registries, upstream distance 1-2 and '
            'differently wired inputs: no two Python-unequal values give the same storage key (unsat per path), '
            'outside the recorded quote-collision finding, which is assumed away and queried separately.', '7/C03'),
    'C02': ('bounded symbolic execution of chain construction for an original and a rewritten configuration over the same symbolic values; query "keys differ" decided by cvc5/z3',
            'For sixteen computation-preserving rewritings (rename, namespace mounting depth 1-2, declaration / task / '
            'mapping-key / kwargs / uses order, ignored and default-valued parameters, config->context moves, '
            'global_vars values, absent optional input, set iteration order) the storage key of every task is the '
            'same for every parameter value (unsat per path); two recorded findings are confirmed by replay.', '7/C02'),
    'C01': ('bounded symbolic execution of real chains over a model file system: symbolic operation histories (choice variables) and symbolic parameter values flowing through construction, run, storage under symbolic file names and loading; value terms compared by cvc5/z3',
            'H1: for 3-6 adversarial configuration pairs on one store (9-task pipeline: files, directory, in-memory, lazily '
            'generated, 12-array list, inputs read by position), every history of 3 (thorough 4) operations '
            '(build, request, force, failing run / failing generator item, restart) returns, for each request, the value of the requesting '
            'chain\'s own configuration. H2-H4: for all parameter / context values (unbounded strings and integers) a '
            'second configuration never receives a value computed for other values, also across namespace mountings '
            'and cross-namespace wirings (unsat per path); the quote collision is a recorded finding.', '7/C01'),
    'C04': ('branch-driven symbolic exploration of Task.data / Chain over a model file system with store pre-state and operation history as solver-tracked bounded integers; run logs compared with a reference closure',
            'All DAGs on 2-4 tasks, every store pre-state, every history of 2-3 operations (request on current / '
            'previous chain, all inspection calls, new chain with own or shared registry, restart): each step runs '
            'exactly the needed-and-missing closure, inspections run nothing, at most one run per location. '
            'Exhaustive within those bounds; by induction on the store invariant longer histories are covered for '
            'the family.', '7/C04'),
    'C05': ('branch-driven symbolic exploration of Task.data and the Data classes over a model file system with the fault (kind, crash tick, torn prefix) as solver-tracked bounded integers; violations replayed on the real file system by killing a child process at the same operation',
            'For 9 data classes x first/forced computation x every fault kind (run raises early/late/at item m, with a '
            'retry on the same object, '
            'mistyped or unserialisable value, process death before every file operation with 3 torn-prefix kinds): '
            'a later chain finds either no result and recomputes, or the complete value; failed directory tasks are '
            'set aside, resumable ones keep their work directory; thorough: a second process death during recovery. '
            'Exhaustive within the model; violations are replayed on the real file system.', '7/C05'),
    'C07': ('branch-driven symbolic exploration of Chain.force / Task.force / Task.data over a model file system with pre-state, forced set, flags, failure and later requests as solver-tracked bounded integers',
            'All DAGs on 2-3 tasks (4: sample), every pre-state, every non-empty forced set, all flag combinations, a '
            'failing forced run, a second force and later requests on the same or a fresh chain: forced flags, deleted '
            'results, run counts, values and the replaced stored result match the reference closure; in name mode '
            'delete_data leaves the results of similarly named configs alone.', '7/C07'),
    'C13': ('bounded symbolic execution of MultiChain._prepare with symbolic parameter values and a symbolic-key registry; object identity vs. equality of reference keys decided by cvc5/z3; request/force histories by symbolic choice',
            'For 2-3 configs of three pipelines with unbounded symbolic values: corresponding tasks are one object '
            'exactly when their computations cannot differ (two unsat queries per pair and path), member keys equal '
            'standalone keys; histories of 3 request/force operations across members: shared values come from '
            'memory, MultiChain.force reaches every member.', '7/C13'),
    'C18': ('branch-driven symbolic exploration of the run-record plumbing over a model file system with per-handle offsets; history as solver-tracked bounded integers',
            'Every history of 3 (thorough 4) operations (request, failing run, force+request, new chain, restart) on a '
            'three-task pipeline with a name/group coincidence: after every step run info and log of every stored '
            'result, read through every live chain object, describe exactly the run that produced it, and no file '
            'handler stays on a task logger.', '7/C18'),
    'C19': ('bounded symbolic execution of TestChain / create_test_task next to a real chain, mock and parameter values as SMT variables (opaque sort, ints, strings); value terms compared by cvc5/z3',
            'For four task shapes (inputs by class / by name, registry / run-argument access, defaults, chain object '
            'parameter, two levels) and both helpers: the helper value equals the real chain value for all mock and '
            'parameter values, also after forcing; mocks never run nor persist; missing inputs / parameters are '
            'reported at construction.', '7/C19'),
    'C06': ('symbolic execution of the Data wrappers with opaque payloads (uninterpreted sort, serialiser contract) decided by cvc5/z3; boundary-pool values through the real serialisers by symbolic choice',
            'taskchain\'s own layer (value/set_value, json-lines framing, listing order, truthiness) returns the '
            'returned term for every payload under the serialiser contract; per storable domain a boundary pool '
            '(27 JSON values x 3 wrappings, 16 arrays incl. 0-d, 11 frames/series, sequences, array lists, '
            'directory trees) round-trips exactly through the real orjson/numpy/pandas, loading changes no file, an '
            'overwritten result holds only the new value. Serialiser fidelity beyond the pool is not claimed.', '7/C06'),
    'C08': ('bounded symbolic execution of Chain._process_dependencies with symbolic namespace/task names (cvc5/z3); whole-chain graphs compared with the reference by symbolic choice of pipeline, mounting and order',
            'For all namespace and task names (unbounded, no ":"), namespace depth 0-2 and three declaration forms the '
            'input resolves inside the declaring namespace (unsat per path); for 7 pipelines x 6 mountings x task '
            'orders tasks, edges and closures equal the reference (nodes compared as computations); cycles of '
            'length 1-3 and dangling inputs raise in both modes.', '7/C08'),
    'C09': ('bounded symbolic execution of Config / Context / Chain construction with one SMT variable per value source; the selected-source term compared by cvc5/z3',
            'For a depth-3 config tree, five context forms (dict, JSON/YAML file, list of up to 3, nested uses) and '
            'every presence pattern of the sources: each parameter is the term of the source the precedence rule '
            'selects, for all values (unsat per path); missing / mistyped values and conflicting declarations '
            'raise, #part references resolve, no mutable value is shared, a reused context is not altered.', '7/C09'),
    'C11': ('bounded symbolic execution of search_and_replace_placeholders / ReprStr on segment-structured strings (text parts and placeholder names are SMT strings); result, idempotence and repr terms compared by cvc5/z3',
            'For strings with up to two brace groups, text parts and names unbounded and brace-free, global_vars as '
            'mapping or object: defined groups are replaced by str(value), everything else is unchanged, a second '
            'application changes nothing, repr keeps the placeholder form also after copy/deepcopy (unsat per '
            'path); concrete scenarios cover values containing placeholders, uses paths, context uses (3 levels), '
            'object definitions and config copies; nested braces are a recorded finding.', '7/C11'),
    'C14': ('branch-driven symbolic exploration of FileCache / JsonCache / InMemoryCache against a dictionary model with opaque symbolic values (cvc5/z3 term equality); truncations through the real numpy/pandas/orjson by symbolic cut',
            'From four pre-states (absent, intact, recorded for another key, damaged) every sequence of 2 (thorough 3) '
            'operations (get, get_or_compute, force, raising computer) on the cache or two sub-caches, for four key '
            'pairs (incl. digests sharing the directory prefix): returned terms, compute counts and reports match '
            'the model; for JSON / numpy (incl. object dtype) / DataFrame values every kind of truncation is never '
            'returned but recomputed.', '7/C14'),
    'C15': ('exhaustive exploration of all interleavings of generator forms of the real cache methods (regenerated from cache.py) under a scheduler with symbolic choices, incl. what a reader sees of a file being written',
            'For 2 (thorough: also 3, JSON cache) concurrent callers, each get / get_or_compute / forced, from 4 pre-states, for the '
            'JSON and the pickle cache: on every schedule each call returns a completely computed value (or '
            'NO_VALUE), none fails because of another, the entry is complete at quiescence, a late caller does not '
            'recompute, no deadlock. Lock = model mutex; no real threads.', '7/C15'),
    'C16': ('bounded symbolic execution of the cached decorator with symbolic argument values and call spellings; key equality decided by cvc5/z3 on a canonical key abstraction of json.dumps',
            'For five signatures and both decorator forms, two calls of every spelling (positional / keyword / '
            'default omitted, both keyword orders) with unbounded symbolic values: one execution exactly when the '
            'bindings are equal (two unsat queries per path), the method receives the right binding; concrete '
            'nested values through the real json.dumps cover methods, versions, ignored arguments and the three '
            'control keywords.', '7/C16'),
    'C17': ('bounded symbolic execution of both parallel_map implementations under a stub event loop whose completion order is a symbolic permutation; outputs opaque SMT values; chunked with a symbolic integer chunk size',
            'For inputs of length 0-4 (thorough 0-6), chunk sizes 1-3, 1-3 threads, sort on/off, every completion '
            'order within a chunk and every raising element: the result equals the sequential map term by term, f '
            'runs exactly once per element, exceptions propagate; chunked yields full chunks and a non-empty rest '
            'for every chunk size (unbounded integer).', '7/C17'),
    'C20': ('branch-driven symbolic exploration of migrate_to_parameter_mode over a model file system with computed subset, dry flag, repetition, config naming, context and global_vars as solver-tracked bounded integers',
            'For every subset of computed tasks (files, directory, json-lines), dry / real, repeated, plain / dotted '
            'config name, with / without context and global_vars: the parameter-mode chain on the target has exactly '
            'the computed results, equal values, runs nothing; the source tree is unchanged apart from the recorded '
            'finding; a second migration changes nothing; dry writes no result file.', '7/C20'),
}
NOT_YET = 'check not built yet in this round (planned, see DESIGN.md section 7); not claimed until it runs'
ALL = [f'C{i:02d}' for i in range(1, 21)]


def main():
    extra = {}
    p = os.path.join(ROOT, 'tools', 'manifest_extra.json')
    if os.path.exists(p):
        extra = json.load(open(p))
    checks = []
    for pid in ALL:
        if pid not in CHECKS:
            continue
        tech, text, ref = CHECKS[pid]
        checks.append({
            'property_id': pid,
            'quick_cmd': f'./vcheck {pid} --tier quick',
            'thorough_cmd': f'./vcheck {pid} --tier thorough',
            'evidence_file': f'/verif/evidence/{pid}.json',
            'replay_cmd_template': f'./vcheck {pid} --replay {{path}}',
            'engine': 'sx',
            'level_claimed': {'category': 'other', 'text': text, 'design_ref': ref},
            'level_note': LEVEL_NOTE,
            'technique': tech,
        })
    na = [{'property_id': pid, 'reason': extra.get('na', {}).get(pid, NOT_YET)} for pid in ALL if pid not in CHECKS]
    m = {
        'version': 1,
        'setup_cmd': './setup.sh',
        'hooks': {'guard': 'TASKCHAIN_VERIF', 'enable': 'no source hooks: all interposition is done by an import hook '
                  'and namespace rebinding inside the check process (sx/instr.py); the guard variable is unused by /repo',
                  'baseline_off_cmd': BASE_CMD, 'source_commits': [], 'add_only': True},
        'engines': [{'name': 'sx', 'path': '/verif/sx', 'serves_properties': sorted(CHECKS),
                     'kind_free_text': 'symbolic execution of the real Python code (AST-instrumented import of '
                     '/repo/src/taskchain, z3-term proxies, restart-based path exploration) with cvc5/z3 verdicts'}],
        'checks': checks,
        'not_applicable': na,
        'notes': 'Exit codes: 0 held on everything explored; 1 reproduced violation (VIOLATION line); 2 inconclusive '
                 '(solver unknown, budget, unsupported construct, non-reproducing counterexample) - never success.',
    }
    json.dump(m, open(os.path.join(ROOT, 'MANIFEST.json'), 'w'), indent=1)
    try:
        import jsonschema
        jsonschema.validate(m, json.load(open('/root/.vp/MANIFEST.schema.json')))
        print('MANIFEST.json valid;', len(checks), 'checks,', len(na), 'not applicable')
    except ImportError:
        print('written (jsonschema not available)')


if __name__ == '__main__':
    main()
