#!/usr/bin/env python3
"""Regenerate /verif/MANIFEST.json from the table below (keeps it valid against the schema at all times)."""
import json, os, sys
ROOT = os.path.dirname(os.path.dirname(os.path.abspath(__file__)))
BASE_CMD = ("cd /repo && /venv/bin/python -m pytest -ra -q -p no:cacheprovider --timeout=900 "
            "--continue-on-collection-errors")
LEVEL_NOTE = ("Trusted base: cvc5 1.4.0 and z3 5.1 (answers cross-checked where z3 answers within 2 s); the AST "
              "instrumentation and the symbolic proxies of sx/ (validated by running the repository's suite under the "
              "hook and by per-path concolic re-runs); the environment models listed in the evidence file; the "
              "reference model in ref/. SHA-256 truncated to 128 bits is assumed collision-free (uninterpreted "
              "injective function). Counterexamples are replayed on the uninstrumented library before being reported.")
CHECKS = {
    # id: (technique, level text, design ref)
    'C10': ('bounded symbolic execution of _find_task_full_name / Chain.get with SMT string components (cvc5+z3)',
            'For every value (unbounded length) of every namespace/group/name component of 2-3 (thorough 2-4) full '
            'names, every shorter query form and every list order, the real resolution function returns what the '
            'component-wise reference returns; each explored path ends in an unsat verdict. Bounded by the number of '
            'names and the nesting depth (2).', '7/C10'),
    'C12': ('bounded symbolic execution of chain construction; key terms over an uninterpreted injective hash compared by cvc5/z3 with a frozen re-implementation of the 1.4.0 scheme',
            'For every value of every persisted parameter (strings and integers unbounded, containers to depth 2/3, '
            'parameter objects, placeholder values) of six family pipelines at namespace depth 0-2, the key the real '
            'code derives equals the key of the frozen 1.4.0 scheme and the data / run-info / log paths have the '
            'documented layout (unsat per path); name mode and a boundary pool of concrete values (floats, unicode, '
            'quotes, backslashes) through the real hashlib are enumerated by symbolic choice.', '7/C12'),
    'C03': ('bounded symbolic execution of chain construction for two configurations; query "values differ AND keys equal" decided by cvc5/z3',
            'For all pairs of value trees of depth <= 2 and width <= 2 (thorough: depth 3) with symbolic leaves and '
            'mapping keys, for parameter-object arguments, multi-parameter registries, upstream distance 1-2 and '
            'differently wired inputs: no two Python-unequal values give the same storage key (unsat per path), '
            'outside the recorded quote-collision finding, which is assumed away and queried separately.', '7/C03'),
    'C02': ('bounded symbolic execution of chain construction for an original and a rewritten configuration over the same symbolic values; query "keys differ" decided by cvc5/z3',
            'For sixteen computation-preserving rewritings (rename, namespace mounting depth 1-2, declaration / task / '
            'mapping-key / kwargs / uses order, ignored and default-valued parameters, config->context moves, '
            'global_vars values, absent optional input, set iteration order) the storage key of every task is the '
            'same for every parameter value (unsat per path); two recorded findings are confirmed by replay.', '7/C02'),
    'C01': ('bounded symbolic execution of real chains over a model file system: symbolic operation histories (choice variables) and symbolic parameter values flowing through construction, run, storage under symbolic file names and loading; value terms compared by cvc5/z3',
            'H1: for 4-6 adversarial configuration pairs on one store, every history of 3 (thorough 4) operations '
            '(build, request, force, failing run, restart) returns, for each request, the value of the requesting '
            'chain\'s own configuration. H2-H4: for all parameter / context values (unbounded strings and integers) a '
            'second configuration never receives a value computed for other values, also across namespace mountings '
            'and cross-namespace wirings (unsat per path); the quote collision is a recorded finding.', '7/C01'),
    'C04': ('branch-driven symbolic exploration of Task.data / Chain over a model file system with store pre-state and operation history as solver-tracked bounded integers; run logs compared with a reference closure',
            'All DAGs on 2-4 tasks, every store pre-state, every history of 2-3 operations (request on current / '
            'previous chain, all inspection calls, new chain with own or shared registry, restart): each step runs '
            'exactly the needed-and-missing closure, inspections run nothing, at most one run per location. '
            'Exhaustive within those bounds; by induction on the store invariant longer histories are covered for '
            'the family.', '7/C04'),
    'C05': ('branch-driven symbolic exploration of Task.data and the Data classes over a model file system with the fault (kind, crash tick, torn prefix) as solver-tracked bounded integers; violations replayed on the real file system by killing a child process at the same operation',
            'For 8 data classes x first/forced computation x every fault kind (run raises early/late/at item m, '
            'mistyped or unserialisable value, process death before every file operation with 3 torn-prefix kinds): '
            'a later chain finds either no result and recomputes, or the complete value; failed directory tasks are '
            'set aside, resumable ones keep their work directory. Exhaustive within the model.', '7/C05'),
    'C07': ('branch-driven symbolic exploration of Chain.force / Task.force / Task.data over a model file system with pre-state, forced set, flags, failure and later requests as solver-tracked bounded integers',
            'All DAGs on 2-3 tasks (4: sample), every pre-state, every non-empty forced set, all flag combinations, a '
            'failing forced run, a second force and later requests on the same or a fresh chain: forced flags, deleted '
            'results, run counts, values and the replaced stored result match the reference closure.', '7/C07'),
    'C13': ('bounded symbolic execution of MultiChain._prepare with symbolic parameter values and a symbolic-key registry; object identity vs. equality of reference keys decided by cvc5/z3; request/force histories by symbolic choice',
            'For 2-3 configs of three pipelines with unbounded symbolic values: corresponding tasks are one object '
            'exactly when their computations cannot differ (two unsat queries per pair and path), member keys equal '
            'standalone keys; histories of 3 request/force operations across members: shared values come from '
            'memory, MultiChain.force reaches every member.', '7/C13'),
    'C18': ('branch-driven symbolic exploration of the run-record plumbing over a model file system with per-handle offsets; history as solver-tracked bounded integers',
            'Every history of 3 (thorough 4) operations (request, failing run, force+request, new chain, restart) on a '
            'three-task pipeline with a name/group coincidence: after every step run info and log of every stored '
            'result, read through every live chain object, describe exactly the run that produced it, and no file '
            'handler stays on a task logger.', '7/C18'),
    'C19': ('bounded symbolic execution of TestChain / create_test_task next to a real chain, mock and parameter values as SMT variables (opaque sort, ints, strings); value terms compared by cvc5/z3',
            'For four task shapes (inputs by class / by name, registry / run-argument access, defaults, chain object '
            'parameter, two levels) and both helpers: the helper value equals the real chain value for all mock and '
            'parameter values, also after forcing; mocks never run nor persist; missing inputs / parameters are '
            'reported at construction.', '7/C19'),
}
NOT_YET = 'check not built yet in this round (planned, see DESIGN.md section 7); not claimed until it runs'
ALL = [f'C{i:02d}' for i in range(1, 21)]


def main():
    extra = {}
    p = os.path.join(ROOT, 'tools', 'manifest_extra.json')
    if os.path.exists(p):
        extra = json.load(open(p))
    checks = []
    for pid in ALL:
        if pid not in CHECKS:
            continue
        tech, text, ref = CHECKS[pid]
        checks.append({
            'property_id': pid,
            'quick_cmd': f'./vcheck {pid} --tier quick',
            'thorough_cmd': f'./vcheck {pid} --tier thorough',
            'evidence_file': f'/verif/evidence/{pid}.json',
            'replay_cmd_template': f'./vcheck {pid} --replay {{path}}',
            'engine': 'sx',
            'level_claimed': {'category': 'other', 'text': text, 'design_ref': ref},
            'level_note': LEVEL_NOTE,
            'technique': tech,
        })
    na = [{'property_id': pid, 'reason': extra.get('na', {}).get(pid, NOT_YET)} for pid in ALL if pid not in CHECKS]
    m = {
        'version': 1,
        'setup_cmd': './setup.sh',
        'hooks': {'guard': 'TASKCHAIN_VERIF', 'enable': 'no source hooks: all interposition is done by an import hook '
                  'and namespace rebinding inside the check process (sx/instr.py); the guard variable is unused by /repo',
                  'baseline_off_cmd': BASE_CMD, 'source_commits': [], 'add_only': True},
        'engines': [{'name': 'sx', 'path': '/verif/sx', 'serves_properties': sorted(CHECKS),
                     'kind_free_text': 'symbolic execution of the real Python code (AST-instrumented import of '
                     '/repo/src/taskchain, z3-term proxies, restart-based path exploration) with cvc5/z3 verdicts'}],
        'checks': checks,
        'not_applicable': na,
        'notes': 'Exit codes: 0 held on everything explored; 1 reproduced violation (VIOLATION line); 2 inconclusive '
                 '(solver unknown, budget, unsupported construct, non-reproducing counterexample) - never success.',
    }
    json.dump(m, open(os.path.join(ROOT, 'MANIFEST.json'), 'w'), indent=1)
    try:
        import jsonschema
        jsonschema.validate(m, json.load(open('/root/.vp/MANIFEST.schema.json')))
        print('MANIFEST.json valid;', len(checks), 'checks,', len(na), 'not applicable')
    except ImportError:
        print('written (jsonschema not available)')


if __name__ == '__main__':
    main()
