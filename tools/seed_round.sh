#!/bin/bash
# usage: ROUND=3 SRC=/tmp/mut/out3 tools/seed_round.sh C01 C02 ...
# Confirms every candidate change of a round and records it under /verif/seeded/<prop>-<round><A|B>/ : the patch
# applies to /repo HEAD, the unedited suite passes with it, the demonstration fails with it and passes without it; then
# runs the property's own check (quick) against /repo with the patch applied -- and, when listed in ALSO below, a
# sibling check -- and records the outcomes.  /repo is restored after every step.
cd /verif
ROUND=${ROUND:-3}; SRC=${SRC:-/tmp/mut/out$ROUND}
H=$(git -C /repo rev-parse --short HEAD)
declare -A ALSO=( [C01-3B]=C20 [C14-3B]=C16 [C06-3B]=C05 )
run_suite() { (cd /repo && /venv/bin/python -m pytest -q -p no:cacheprovider -x 2>&1 | tail -1); }
for p in "$@"; do for var in A B; do
  dir=$SRC/$p/$var
  [ -f $dir/patch.diff ] || continue
  prop=$p; demo=$dir/demo.py; metasrc=$dir/meta.json
  id="$prop-$ROUND$var"; out=seeded/$id; mkdir -p $out
  if ! git -C /repo apply --check $dir/patch.diff 2>/dev/null; then
    echo "$id: patch does not apply to $H -> skipped"; rm -rf $out; continue
  fi
  git -C /repo apply $dir/patch.diff
  suite=$(run_suite)
  (cd /tmp && PYTHONPATH=/repo/src timeout 300 /venv/bin/python $demo >/dev/null 2>&1); d_with=$?
  res=$(SX_OUT_DIR=/tmp/sxout/seed timeout 1200 ./vcheck $prop 2>&1); code=$?
  labels=$(echo "$res" | grep "violated:" | sort | uniq -c | tr '\n' ';')
  other=${ALSO[$id]}; ocode=-1; olabels=""
  if [ -n "$other" ]; then
    ores=$(SX_OUT_DIR=/tmp/sxout/seed timeout 1200 ./vcheck $other 2>&1); ocode=$?
    olabels=$(echo "$ores" | grep "violated:" | sort | uniq -c | tr '\n' ';')
  fi
  git -C /repo checkout -- src
  (cd /tmp && PYTHONPATH=/repo/src timeout 300 /venv/bin/python $demo >/dev/null 2>&1); d_without=$?
  cp $dir/patch.diff $out/patch.diff; cp $demo $out/demo.py
  python3 - "$id" "$prop" "$metasrc" "$suite" "$d_with" "$d_without" "$code" "$labels" "$H" "$other" "$ocode" "$olabels" > $out/meta.json <<'PY'
import json,sys
id_,prop,src,suite,dw,dwo,code,labels,head,other,ocode,olabels=sys.argv[1:]
m=json.load(open(src))
ran={'git -C /repo apply patch.diff':'ok','suite with patch':suite.strip(),'demo.py with patch (exit code)':int(dw),
     'demo.py without patch (exit code)':int(dwo),f'./vcheck {prop} (quick) with patch: exit code':int(code),
     'violated labels':labels}
d={'id':id_,'property':prop,'summary':m.get('summary'),'needs_to_manifest':m.get('needs_to_manifest'),
 'files_touched':m.get('files_touched'),'origin':'independent sub-agent given only the property text and a scratch worktree',
 'confirmed_on_repo_head':head,'what_i_ran':ran,'detected_by_own_check': int(code)==1}
if other:
    ran[f'./vcheck {other} (quick) with patch: exit code']=int(ocode); ran[f'violated labels ({other})']=olabels
    d['detected_by_other_check']={other:int(ocode)==1}
print(json.dumps(d,indent=1))
PY
  echo "$id: suite=[$suite] demo_with=$d_with demo_without=$d_without check_exit=$code $labels ${other:+| $other exit=$ocode $olabels}"
done; done
git -C /repo status --short
