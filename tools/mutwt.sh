#!/bin/bash
# usage: tools/mutwt.sh <worktree> <patch.diff> <check id>...   (development aid: runs the checks against a scratch
# worktree with the patch applied, leaving /repo and /verif/evidence untouched; final confirmation uses mutrun.sh)
wt="$1"; patch="$2"; shift 2
cd /verif
git -C "$wt" checkout -q -- . ; git -C "$wt" apply "$patch" || { echo "patch does not apply"; exit 9; }
trap 'git -C "$wt" checkout -q -- .' EXIT
export SX_REPO="$wt" SX_REPO_SRC="$wt/src" SX_OUT_DIR="/tmp/sxout/$(basename $wt)"
mkdir -p "$SX_OUT_DIR"
for c in "$@"; do
  out=$(timeout ${MUT_TIMEOUT:-600} ./vcheck $c 2>&1); code=$?
  echo "== $(basename $(dirname $patch))/$(basename $patch .diff) $c exit=$code $(echo "$out" | grep -c VIOLATION) violation line(s)"
  echo "$out" | grep -E "violated|INCONCLUSIVE|KNOWN" | head -${MUT_LINES:-3}
done
